(* Refl/MatcherProofs.v -- well-formedness of a PathMatcher table and what the table operations do to
   the flat list of entries. *)
From Coq Require Import List NArith ZArith Bool Arith Lia Permutation.
From Muscle Require Import Refl.Base Refl.BaseProofs Refl.Tree Refl.Matcher Refl.Traverse.
Import ListNotations.

Section MatcherProofs.
Context {M : MatchOps} {L : MatchLaws M}.

Definition wf_group (g : group) : Prop :=
  snd g <> [] /\ 1 <= fst g /\ (forall e, In e (snd g) -> length (e_pat e) = fst g) /\ NoDup (map e_pat (snd g)).

Definition wf_groups (gs : list group) : Prop :=
  NoDup (map fst gs) /\ forall g, In g gs -> wf_group g.

Definition count_filters (gs : list group) : nat := length (filter has_filter (flat_map snd gs)).

Definition wf_matcher (m : matcher) : Prop :=
  wf_groups (m_groups m) /\ m_nfilters m = N.of_nat (count_filters (m_groups m)).

Lemma wf_empty : wf_matcher empty_matcher.
Proof. split; [split; [constructor|intros g []]|reflexivity]. Qed.

(* ------------------------------------------------------------------ lookups *)

Lemma group_get_in : forall gs d e, In e (group_get gs d) -> exists g, In g gs /\ fst g = d /\ In e (snd g).
Proof.
  induction gs as [|[k es] gs IH]; intros d e H; cbn in H; [contradiction|].
  destruct (Nat.eqb k d) eqn:E.
  - apply Nat.eqb_eq in E. exists (k, es). split; [now left|auto].
  - apply IH in H as [g [H1 H2]]. exists g. split; [now right|auto].
Qed.

Lemma group_get_found : forall gs g, NoDup (map fst gs) -> In g gs -> group_get gs (fst g) = snd g.
Proof.
  induction gs as [|[k es] gs IH]; intros g Hnd Hin; [contradiction|]. cbn.
  inversion Hnd as [|? ? Hk Hnd']; subst.
  destruct Hin as [Hin|Hin].
  - subst. cbn. now rewrite Nat.eqb_refl.
  - destruct (Nat.eqb k (fst g)) eqn:E; [|now apply IH].
    apply Nat.eqb_eq in E. exfalso. apply Hk. subst k. now apply in_map.
Qed.

Lemma in_all_entries : forall m e, In e (all_entries m) <-> exists g, In g (m_groups m) /\ In e (snd g).
Proof. intros m e. unfold all_entries. now rewrite in_flat_map. Qed.

(* an entry of the matcher is found in the group of its clause count *)
Lemma entry_in_its_group : forall m e, wf_groups (m_groups m) ->
  In e (all_entries m) <-> In e (group_get (m_groups m) (length (e_pat e))).
Proof.
  intros m e [Hnd Hwf]. split; intros H.
  - apply in_all_entries in H as [g [Hg He]].
    destruct (Hwf g Hg) as [_ [_ [Hlen _]]]. rewrite (Hlen e He). now rewrite (group_get_found _ g Hnd Hg).
  - apply group_get_in in H as [g [Hg [_ He]]]. apply in_all_entries. eauto.
Qed.

Lemma group_get_length : forall m d e, wf_groups (m_groups m) -> In e (group_get (m_groups m) d) -> length (e_pat e) = d.
Proof.
  intros m d e [_ Hwf] H. apply group_get_in in H as [g [Hg [Hd He]]].
  destruct (Hwf g Hg) as [_ [_ [Hlen _]]]. rewrite <- Hd. now apply Hlen.
Qed.

Lemma active_spec : forall m rel e, wf_groups (m_groups m) ->
  In e (active m rel) <-> In e (all_entries m) /\ rel < length (e_pat e).
Proof.
  intros m rel e [_ Hwf]. unfold active. rewrite in_flat_map. split.
  - intros [g [Hg He]]. destruct (Nat.ltb rel (fst g)) eqn:E; [|contradiction].
    apply Nat.ltb_lt in E. destruct (Hwf g Hg) as [_ [_ [Hlen _]]]. rewrite (Hlen e He).
    split; auto. apply in_all_entries. eauto.
  - intros [H Hlt]. apply in_all_entries in H as [g [Hg He]]. exists g. split; auto.
    destruct (Hwf g Hg) as [_ [_ [Hlen _]]]. rewrite (Hlen e He) in Hlt.
    apply Nat.ltb_lt in Hlt. now rewrite Hlt.
Qed.

(* MatchesNode = some entry of the whole table matches (its group is implied by the clause count) *)
Lemma matches_node_spec : forall m p d rd, wf_groups (m_groups m) -> rd <= length p ->
  matches_node m p d rd = true <-> exists e, In e (all_entries m) /\ path_matches e p d rd = true.
Proof.
  intros m p d rd Hwf Hrd. unfold matches_node.
  assert (Nat.ltb (length p) rd = false) as -> by (apply Nat.ltb_ge; lia).
  rewrite existsb_exists. split; intros [e [He Hm]]; exists e; split; auto.
  - apply group_get_in in He as [g [Hg [_ He]]]. apply in_all_entries. eauto.
  - assert (Hl : length (e_pat e) = length p - rd).
    { unfold path_matches in Hm. apply andb_true_iff in Hm as [Hm _].
      apply pat_matches_length in Hm. rewrite skipn_length in Hm. exact Hm. }
    rewrite <- Hl. now apply entry_in_its_group.
Qed.

Lemma matches_path_spec : forall m p d, wf_groups (m_groups m) ->
  matches_path m p d = true <-> exists e, In e (all_entries m) /\ pat_matches (e_pat e) p = true /\ filter_ok (e_flt e) d = true.
Proof.
  intros m p d Hwf. unfold matches_path. rewrite existsb_exists. split.
  - intros [e [He Hm]]. apply andb_true_iff in Hm as [H1 H2]. exists e. split; auto.
    apply group_get_in in He as [g [Hg [_ He]]]. apply in_all_entries. eauto.
  - intros [e [He [H1 H2]]]. exists e. split; [|now rewrite H1, H2].
    rewrite <- (pat_matches_length _ _ H1). now apply entry_in_its_group.
Qed.

Lemma matches_node_path : forall m p d, wf_groups (m_groups m) -> matches_node m p d 0 = matches_path m p d.
Proof.
  intros m p d Hwf. unfold matches_node, matches_path, path_matches. cbn. now rewrite Nat.sub_0_r.
Qed.

(* number of entries whose path matches p (filters ignored) *)
Definition count_matching (m : matcher) (p : path) : nat :=
  length (filter (fun e => pat_matches (e_pat e) p) (all_entries m)).

Lemma filter_none : forall (A : Type) (f : A -> bool) l, (forall x, In x l -> f x = false) -> filter f l = [].
Proof.
  induction l as [|x l IH]; intros H; cbn; auto.
  rewrite (H x (or_introl eq_refl)). apply IH. intros y Hy. apply H. now right.
Qed.

Lemma count_in_groups : forall gs p, NoDup (map fst gs) -> (forall g, In g gs -> wf_group g) ->
  length (filter (fun e => pat_matches (e_pat e) p) (flat_map snd gs))
  = length (filter (fun e => pat_matches (e_pat e) p) (group_get gs (length p))).
Proof.
  induction gs as [|[k es] gs IH]; intros p Hnd Hwf; cbn; auto.
  inversion Hnd as [|? ? Hk Hnd']; subst.
  rewrite filter_app, app_length.
  destruct (Nat.eqb k (length p)) eqn:E.
  - apply Nat.eqb_eq in E.
    rewrite (filter_none _ _ (flat_map snd gs)); [cbn; lia|].
    intros e He. apply in_flat_map in He as [g [Hg He]].
    destruct (Hwf g (or_intror Hg)) as [_ [_ [Hlen _]]].
    destruct (pat_matches (e_pat e) p) eqn:Em; auto. apply pat_matches_length in Em.
    exfalso. apply Hk. rewrite (Hlen e He) in Em. subst k. rewrite <- Em. now apply in_map.
  - rewrite (filter_none _ _ es).
    + cbn. apply IH; auto. intros g Hg. apply Hwf. now right.
    + intros e He. destruct (Hwf (k, es) (or_introl eq_refl)) as [_ [_ [Hlen _]]].
      destruct (pat_matches (e_pat e) p) eqn:Em; auto. apply pat_matches_length in Em.
      cbn in Hlen. rewrite (Hlen e He) in Em. apply Nat.eqb_neq in E. contradiction.
Qed.

Lemma match_count_spec : forall m p, wf_groups (m_groups m) ->
  match_count m p None 0 = N.of_nat (count_matching m p).
Proof.
  intros m p [Hnd Hwf]. unfold match_count, count_matching, all_entries. cbn [Nat.ltb Nat.leb].
  rewrite Nat.sub_0_r. f_equal. rewrite count_in_groups; auto.
  f_equal. apply filter_ext. intros e. unfold path_matches, filter_ok. cbn. destruct (e_flt e); now rewrite andb_true_r.
Qed.


(* ------------------------------------------------------------------ the table operations *)

Definition Pe (P : pat -> bool) (e : entry) : bool := P (e_pat e).
Definition b2n (b : bool) : nat := if b then 1 else 0.

Lemma entries_put_count : forall P es e,
  length (filter (Pe P) (entries_put es e))
  = length (filter (Pe P) es) + (match entries_get es (e_pat e) with Some _ => 0 | None => b2n (P (e_pat e)) end).
Proof.
  intros P. induction es as [|x es IH]; intros e; cbn [entries_put entries_get filter length].
  - unfold Pe. destruct (P (e_pat e)); reflexivity.
  - destruct (pat_eqb (e_pat x) (e_pat e)) eqn:E.
    + apply pat_eqb_eq in E. cbn [filter]. unfold Pe. rewrite E. destruct (P (e_pat e)); cbn; lia.
    + cbn [filter]. destruct (Pe P x); cbn [length]; rewrite IH; lia.
Qed.

Lemma groups_put_count : forall P gs d e,
  length (filter (Pe P) (flat_map snd (groups_put gs d e)))
  = length (filter (Pe P) (flat_map snd gs))
    + (match entries_get (group_get gs d) (e_pat e) with Some _ => 0 | None => b2n (P (e_pat e)) end).
Proof.
  intros P. induction gs as [|[k es] gs IH]; intros d e; cbn [groups_put group_get flat_map snd].
  - cbn. unfold Pe. destruct (P (e_pat e)); reflexivity.
  - destruct (Nat.eqb k d) eqn:E; cbn [flat_map snd]; rewrite !filter_app, !app_length.
    + rewrite entries_put_count. lia.
    + rewrite IH. lia.
Qed.

Lemma entries_remove_count : forall P es p e, entries_get es p = Some e ->
  length (filter (Pe P) (entries_remove es p)) + b2n (P p) = length (filter (Pe P) es).
Proof.
  intros P. induction es as [|x es IH]; intros p e H; cbn [entries_remove entries_get filter] in *; [discriminate|].
  destruct (pat_eqb (e_pat x) p) eqn:E.
  - apply pat_eqb_eq in E. unfold Pe at 2. rewrite E. destruct (P p); cbn; lia.
  - cbn [filter]. destruct (Pe P x); cbn [length]; rewrite <- (IH p e H); lia.
Qed.

Lemma groups_remove_count : forall P gs d p e, entries_get (group_get gs d) p = Some e ->
  length (filter (Pe P) (flat_map snd (groups_remove gs d p))) + b2n (P p) = length (filter (Pe P) (flat_map snd gs)).
Proof.
  intros P. induction gs as [|[k es] gs IH]; intros d p e H; cbn [groups_remove group_get flat_map snd] in *; [discriminate|].
  destruct (Nat.eqb k d) eqn:E.
  - pose proof (entries_remove_count P es p e H) as Hc.
    destruct (entries_remove es p) as [|y ys] eqn:Er; cbn [flat_map snd]; rewrite !filter_app, !app_length.
    + cbn in Hc. lia.
    + rewrite <- Hc. lia.
  - cbn [flat_map snd]. rewrite !filter_app, !app_length. rewrite <- (IH d p e H). lia.
Qed.


Lemma entries_get_some : forall es p e, entries_get es p = Some e -> In e es /\ e_pat e = p.
Proof.
  induction es as [|x es IH]; intros p e H; cbn in H; [discriminate|].
  destruct (pat_eqb (e_pat x) p) eqn:E.
  - inversion H; subst. apply pat_eqb_eq in E. split; [now left|auto].
  - apply IH in H as [H1 H2]. split; [now right|auto].
Qed.

Lemma entries_get_none : forall es p, entries_get es p = None <-> forall e, In e es -> e_pat e <> p.
Proof.
  induction es as [|x es IH]; intros p; cbn.
  - split; [intros _ e []|auto].
  - destruct (pat_eqb (e_pat x) p) eqn:E.
    + apply pat_eqb_eq in E. split; [discriminate|]. intros H. exfalso. apply (H x); auto.
    + apply pat_eqb_neq in E. rewrite IH. split.
      * intros H e [He|He]; [now subst|now apply H].
      * intros H e He. apply H. now right.
Qed.

Lemma entries_put_in : forall es e x, In x (entries_put es e) -> x = e \/ In x es.
Proof.
  induction es as [|y es IH]; intros e x H; cbn in H.
  - destruct H as [H|[]]; auto.
  - destruct (pat_eqb (e_pat y) (e_pat e)).
    + destruct H as [H|H]; [left; auto|right; now right].
    + destruct H as [H|H]; [right; now left|]. apply IH in H as [H|H]; [now left|right; now right].
Qed.

Lemma entries_put_pats : forall es e p, In p (map e_pat (entries_put es e)) <-> p = e_pat e \/ In p (map e_pat es).
Proof.
  induction es as [|y es IH]; intros e p; cbn.
  - intuition.
  - destruct (pat_eqb (e_pat y) (e_pat e)) eqn:E; cbn.
    + apply pat_eqb_eq in E. rewrite E. intuition.
    + rewrite IH. intuition.
Qed.

Lemma entries_put_nodup : forall es e, NoDup (map e_pat es) -> NoDup (map e_pat (entries_put es e)).
Proof.
  induction es as [|y es IH]; intros e H; cbn.
  - repeat constructor. intros [].
  - cbn in H. inversion H as [|? ? Hy H']; subst.
    destruct (pat_eqb (e_pat y) (e_pat e)) eqn:E; cbn.
    + apply pat_eqb_eq in E. rewrite <- E. now constructor.
    + constructor; auto. rewrite entries_put_pats. intros [H1|H1]; [|contradiction].
      apply pat_eqb_neq in E. congruence.
Qed.

Lemma groups_put_keys : forall gs d e k, In k (map fst (groups_put gs d e)) <-> k = d \/ In k (map fst gs).
Proof.
  induction gs as [|[k0 es] gs IH]; intros d e k; cbn.
  - intuition.
  - destruct (Nat.eqb k0 d) eqn:E; cbn.
    + apply Nat.eqb_eq in E. subst. intuition.
    + rewrite IH. intuition.
Qed.

Lemma groups_put_wf : forall gs d e, wf_groups gs -> length (e_pat e) = d -> 1 <= d -> wf_groups (groups_put gs d e).
Proof.
  induction gs as [|[k0 es] gs IH]; intros d e [Hnd Hwf] Hl Hd; cbn.
  - split; [repeat constructor; intros []|]. intros g [Hg|[]]. subst g.
    split; [discriminate|split; [auto|split]]; cbn.
    + intros x [Hx|[]]. now subst.
    + repeat constructor. intros [].
  - cbn in Hnd. inversion Hnd as [|? ? Hk Hnd']; subst.
    assert (Hgs : wf_groups gs) by (split; auto; intros g Hg; apply Hwf; now right).
    destruct (Hwf (k0, es) (or_introl eq_refl)) as [G1 [G2 [G3 G4]]]. cbn in *.
    destruct (Nat.eqb k0 (length (e_pat e))) eqn:E.
    + apply Nat.eqb_eq in E. split; [cbn; now constructor|].
      intros g [Hg|Hg]; [|apply Hwf; now right]. subst g.
      split; [|split; [auto|split]]; cbn.
      * destruct es; cbn; [discriminate|]. destruct (pat_eqb _ _); discriminate.
      * intros x Hx. apply entries_put_in in Hx as [Hx|Hx]; [now subst|now apply G3].
      * now apply entries_put_nodup.
    + destruct (IH (length (e_pat e)) e Hgs eq_refl Hd) as [Hnd2 Hwf2]. split.
      * cbn. constructor; auto. rewrite groups_put_keys. intros [H|H]; [|contradiction].
        apply Nat.eqb_neq in E. congruence.
      * intros g [Hg|Hg]; [subst g; apply (Hwf (k0, es)); now left|now apply Hwf2].
Qed.

Lemma entries_remove_in : forall es p x, In x (entries_remove es p) -> In x es.
Proof.
  induction es as [|y es IH]; intros p x H; cbn in H; [contradiction|].
  destruct (pat_eqb (e_pat y) p); [now right|].
  destruct H as [H|H]; [now left|right; eauto].
Qed.

Lemma entries_remove_nodup : forall es p, NoDup (map e_pat es) -> NoDup (map e_pat (entries_remove es p)).
Proof.
  induction es as [|y es IH]; intros p H; cbn; auto.
  cbn in H. inversion H as [|? ? Hy H']; subst.
  destruct (pat_eqb (e_pat y) p); auto. cbn. constructor; auto.
  intros Hin. apply Hy. apply in_map_iff in Hin as [x [Hx1 Hx2]]. apply entries_remove_in in Hx2.
  rewrite <- Hx1. now apply in_map.
Qed.

Lemma groups_remove_keys : forall gs d p k, In k (map fst (groups_remove gs d p)) -> In k (map fst gs).
Proof.
  induction gs as [|[k0 es] gs IH]; intros d p k H; cbn in *; auto.
  destruct (Nat.eqb k0 d).
  - destruct (entries_remove es p); cbn in *; intuition.
  - cbn in H. destruct H as [H|H]; [now left|right; eauto].
Qed.

Lemma groups_remove_wf : forall gs d p, wf_groups gs -> wf_groups (groups_remove gs d p).
Proof.
  induction gs as [|[k0 es] gs IH]; intros d p [Hnd Hwf]; cbn; [split; auto|].
  cbn in Hnd. inversion Hnd as [|? ? Hk Hnd']; subst.
  assert (Hgs : wf_groups gs) by (split; auto; intros g Hg; apply Hwf; now right).
  destruct (Hwf (k0, es) (or_introl eq_refl)) as [G1 [G2 [G3 G4]]]. cbn in *.
  destruct (Nat.eqb k0 d).
  - destruct (entries_remove es p) as [|y ys] eqn:Er; auto.
    split; [cbn; now constructor|].
    intros g [Hg|Hg]; [|apply Hwf; now right]. subst g.
    split; [discriminate|split; [auto|split]]; cbn.
    + intros x Hx. apply G3. apply (entries_remove_in es p). now rewrite Er.
    + pose proof (entries_remove_nodup es p G4) as H. now rewrite Er in H.
  - destruct (IH d p Hgs) as [Hnd2 Hwf2]. split.
    + cbn. constructor; auto. intros H. apply Hk. now apply groups_remove_keys in H.
    + intros g [Hg|Hg]; [subst g; apply (Hwf (k0, es)); now left|now apply Hwf2].
Qed.

Lemma filter_true_all : forall l : list entry, filter (Pe (fun _ => true)) l = l.
Proof. induction l as [|x l IH]; cbn; auto. now rewrite IH. Qed.

Lemma filter_len_le : forall (A : Type) (f : A -> bool) l, length (filter f l) <= length l.
Proof. induction l as [|x l IH]; cbn; auto. destruct (f x); cbn; lia. Qed.

(* -- the matcher-level facts the server proofs use -- *)

Definition pm (q : path) : pat -> bool := fun p => pat_matches p q.

Lemma count_matching_put : forall m p f q, p <> [] ->
  count_matching (m_put m p f) q
  = count_matching m q + (match m_get m p with Some _ => 0 | None => b2n (pat_matches p q) end).
Proof.
  intros m p f q Hp. unfold count_matching, all_entries, m_put, m_get. destruct p as [|c p]; [congruence|].
  cbn [m_groups]. apply (groups_put_count (pm q)).
Qed.

Lemma count_matching_set_filter : forall m p f q, count_matching (m_set_filter m p f) q = count_matching m q.
Proof.
  intros m p f q. unfold m_set_filter. destruct (m_get m p) as [e|] eqn:E; auto.
  unfold count_matching, all_entries. cbn [m_groups].
  pose proof (groups_put_count (pm q) (m_groups m) (length p) (mkEntry p f)) as H.
  unfold Pe, pm in H. cbn [e_pat] in H. unfold m_get in E. rewrite E in H. rewrite H. lia.
Qed.

Lemma count_matching_remove : forall m p m' q, m_remove m p = Some m' ->
  count_matching m' q + b2n (pat_matches p q) = count_matching m q.
Proof.
  intros m p m' q H. unfold m_remove in H. destruct (m_get m p) as [e|] eqn:E; [|discriminate].
  inversion H; subst. unfold count_matching, all_entries. cbn [m_groups].
  apply (groups_remove_count (pm q) _ _ _ e E).
Qed.

Lemma wf_put : forall m p f, wf_groups (m_groups m) -> wf_groups (m_groups (m_put m p f)).
Proof.
  intros m p f H. unfold m_put. destruct p as [|c p]; auto. cbn [m_groups].
  apply groups_put_wf; auto. cbn. lia.
Qed.

Lemma wf_set_filter : forall m p f, wf_groups (m_groups m) -> wf_groups (m_groups (m_set_filter m p f)).
Proof.
  intros m p f H. unfold m_set_filter. destruct (m_get m p) as [e|] eqn:E; auto. cbn [m_groups].
  unfold m_get in E. apply entries_get_some in E as [E1 E2].
  apply group_get_in in E1 as [g [Hg [Hd He]]]. destruct H as [Hnd Hwf]. destruct (Hwf g Hg) as [_ [G2 [G3 _]]].
  apply groups_put_wf; [split; auto|reflexivity|]. cbn. rewrite <- E2, (G3 e He). exact G2.
Qed.

Lemma wf_remove : forall m p m', wf_groups (m_groups m) -> m_remove m p = Some m' -> wf_groups (m_groups m').
Proof.
  intros m p m' H Hr. unfold m_remove in Hr. destruct (m_get m p); [|discriminate]. inversion Hr; subst.
  cbn [m_groups]. now apply groups_remove_wf.
Qed.

Lemma num_entries_put : forall m p f, num_entries (m_put m p f) <= S (num_entries m).
Proof.
  intros m p f. unfold num_entries, all_entries, m_put. destruct p as [|c p]; [lia|]. cbn [m_groups].
  pose proof (groups_put_count (fun _ => true) (m_groups m) (length (c :: p)) (mkEntry (c :: p) f)) as H.
  rewrite !filter_true_all in H. destruct (entries_get _ _); unfold b2n in H; lia.
Qed.

Lemma num_entries_set_filter : forall m p f, num_entries (m_set_filter m p f) = num_entries m.
Proof.
  intros m p f. unfold m_set_filter. destruct (m_get m p) as [e|] eqn:E; auto.
  unfold num_entries, all_entries. cbn [m_groups].
  pose proof (groups_put_count (fun _ => true) (m_groups m) (length p) (mkEntry p f)) as H.
  rewrite !filter_true_all in H. cbn [e_pat] in H. unfold m_get in E. rewrite E in H. lia.
Qed.

Lemma num_entries_remove : forall m p m', m_remove m p = Some m' -> num_entries m' <= num_entries m.
Proof.
  intros m p m' H. unfold m_remove in H. destruct (m_get m p) as [e|] eqn:E; [|discriminate]. inversion H; subst.
  unfold num_entries, all_entries. cbn [m_groups].
  pose proof (groups_remove_count (fun _ => true) (m_groups m) (length p) p e E) as Hc.
  rewrite !filter_true_all in Hc. lia.
Qed.

Lemma count_le_entries : forall m q, count_matching m q <= num_entries m.
Proof. intros m q. unfold count_matching, num_entries. apply filter_len_le. Qed.

(* the one-pattern matcher used to mark / unmark the nodes of one subscription *)
Lemma single_wf : forall p, p <> [] -> wf_groups (m_groups (m_put empty_matcher p None)).
Proof. intros p Hp. apply wf_put. apply wf_empty. Qed.

Lemma single_matches : forall p q d, p <> [] ->
  matches_node (m_put empty_matcher p None) q d 0 = pat_matches p q.
Proof.
  intros p q d Hp. unfold m_put, matches_node, path_matches. destruct p as [|c p]; [congruence|].
  cbn [m_groups empty_matcher groups_put group_get Nat.ltb Nat.leb]. rewrite Nat.sub_0_r.
  destruct (Nat.eqb (length (c :: p)) (length q)) eqn:E.
  - cbn [existsb e_pat e_flt skipn]. unfold filter_ok. now rewrite orb_false_r, andb_true_r.
  - cbn [existsb]. destruct (pat_matches (c :: p) q) eqn:Em; auto.
    apply pat_matches_length in Em. apply Nat.eqb_neq in E. contradiction.
Qed.


(* ------------------------------------------------------------------ the filter counter _numFilters *)

Lemma entries_put_countQ : forall (Q : entry -> bool) es e,
  length (filter Q (entries_put es e))
  + (match entries_get es (e_pat e) with Some e0 => b2n (Q e0) | None => 0 end)
  = length (filter Q es) + b2n (Q e).
Proof.
  intros Q. induction es as [|x es IH]; intros e; cbn [entries_put entries_get filter length].
  - destruct (Q e); cbn; lia.
  - destruct (pat_eqb (e_pat x) (e_pat e)) eqn:E.
    + cbn [filter]. destruct (Q e), (Q x); cbn; lia.
    + cbn [filter]. specialize (IH e). destruct (Q x); cbn [length]; lia.
Qed.

Lemma groups_put_countQ : forall (Q : entry -> bool) gs d e,
  length (filter Q (flat_map snd (groups_put gs d e)))
  + (match entries_get (group_get gs d) (e_pat e) with Some e0 => b2n (Q e0) | None => 0 end)
  = length (filter Q (flat_map snd gs)) + b2n (Q e).
Proof.
  intros Q. induction gs as [|[k es] gs IH]; intros d e; cbn [groups_put group_get flat_map snd].
  - cbn. destruct (Q e); cbn; lia.
  - destruct (Nat.eqb k d) eqn:E; cbn [flat_map snd]; rewrite !filter_app, !app_length.
    + pose proof (entries_put_countQ Q es e). lia.
    + specialize (IH d e). lia.
Qed.

Lemma entries_remove_countQ : forall (Q : entry -> bool) es p e0, entries_get es p = Some e0 ->
  length (filter Q (entries_remove es p)) + b2n (Q e0) = length (filter Q es).
Proof.
  intros Q. induction es as [|x es IH]; intros p e0 H; cbn [entries_remove entries_get filter] in *; [discriminate|].
  destruct (pat_eqb (e_pat x) p) eqn:E.
  - inversion H; subst. destruct (Q e0); cbn; lia.
  - cbn [filter]. specialize (IH p e0 H). destruct (Q x); cbn [length]; lia.
Qed.

Lemma groups_remove_countQ : forall (Q : entry -> bool) gs d p e0, entries_get (group_get gs d) p = Some e0 ->
  length (filter Q (flat_map snd (groups_remove gs d p))) + b2n (Q e0) = length (filter Q (flat_map snd gs)).
Proof.
  intros Q. induction gs as [|[k es] gs IH]; intros d p e0 H; cbn [groups_remove group_get flat_map snd] in *; [discriminate|].
  destruct (Nat.eqb k d) eqn:E.
  - pose proof (entries_remove_countQ Q es p e0 H) as Hc.
    destruct (entries_remove es p) as [|y ys] eqn:Er; cbn [flat_map snd]; rewrite !filter_app, !app_length.
    + cbn in Hc. lia.
    + lia.
  - cbn [flat_map snd]. rewrite !filter_app, !app_length. specialize (IH d p e0 H). lia.
Qed.

Lemma nf_update : forall (nf : N) (c c' : nat) (had has : bool),
  nf = N.of_nat c -> c' + b2n had = c + b2n has ->
  (if Bool.eqb had has then nf else if has then (nf + 1)%N else (nf - 1)%N) = N.of_nat c'.
Proof. intros nf c c' had has H1 H2. subst nf. destruct had, has; cbn in *; lia. Qed.

Lemma has_filter_mk : forall p f, has_filter (mkEntry p f) = match f with Some _ => true | None => false end.
Proof. intros p f. destruct f; reflexivity. Qed.

Lemma wf_matcher_put : forall m p f, wf_matcher m -> wf_matcher (m_put m p f).
Proof.
  intros m p f [Hw Hn]. split; [now apply wf_put|].
  unfold m_put. destruct p as [|c p]; auto. cbn [m_groups m_nfilters].
  pose proof (groups_put_countQ has_filter (m_groups m) (length (c :: p)) (mkEntry (c :: p) f)) as H.
  cbn [e_pat] in H. rewrite has_filter_mk in H. unfold m_get.
  set (eg := entries_get (group_get (m_groups m) (length (c :: p))) (c :: p)) in *.
  apply (nf_update _ (count_filters (m_groups m))); auto.
  unfold count_filters. destruct eg; cbn [b2n] in *; lia.
Qed.

Lemma wf_matcher_set_filter : forall m p f, wf_matcher m -> wf_matcher (m_set_filter m p f).
Proof.
  intros m p f [Hw Hn]. split; [now apply wf_set_filter|].
  unfold m_set_filter. destruct (m_get m p) as [e|] eqn:E; auto. cbn [m_groups m_nfilters].
  pose proof (groups_put_countQ has_filter (m_groups m) (length p) (mkEntry p f)) as H.
  cbn [e_pat] in H. rewrite has_filter_mk in H. unfold m_get in E. rewrite E in H.
  apply (nf_update _ (count_filters (m_groups m))); auto.
Qed.

Lemma wf_matcher_remove : forall m p m', wf_matcher m -> m_remove m p = Some m' -> wf_matcher m'.
Proof.
  intros m p m' [Hw Hn] Hr. split; [now apply (wf_remove m p)|].
  unfold m_remove in Hr. destruct (m_get m p) as [e|] eqn:E; [|discriminate]. inversion Hr; subst.
  cbn [m_groups m_nfilters].
  pose proof (groups_remove_countQ has_filter (m_groups m) (length p) p e E) as H.
  unfold count_filters in *. rewrite Hn. destruct (has_filter e); cbn [b2n] in H; lia.
Qed.

(* with the counter right, "no filter installed" is what the counter says *)
Lemma nfilters_zero : forall m, wf_matcher m -> (N.ltb 0 (m_nfilters m) = false) ->
  forall e, In e (all_entries m) -> e_flt e = None.
Proof.
  intros m [_ Hn] H e He. apply N.ltb_ge in H. rewrite Hn in H. unfold count_filters in H.
  destruct (e_flt e) eqn:Ef; auto. exfalso.
  assert (Hin : In e (filter has_filter (flat_map snd (m_groups m)))).
  { apply filter_In. split; auto. unfold has_filter. now rewrite Ef. }
  destruct (filter has_filter (flat_map snd (m_groups m))); [contradiction|cbn in H; lia].
Qed.


(* ------------------------------------------------------------------ entries as a set keyed by their path *)

Lemma entries_put_iff : forall es e x, NoDup (map e_pat es) ->
  (In x (entries_put es e) <-> x = e \/ (In x es /\ e_pat x <> e_pat e)).
Proof.
  induction es as [|y es IH]; intros e x Hnd; cbn [entries_put].
  - cbn. split; [intros [H|[]]; now left|intros [H|[[] _]]; now left].
  - cbn in Hnd. inversion Hnd as [|? ? Hy Hnd']; subst.
    destruct (pat_eqb (e_pat y) (e_pat e)) eqn:E.
    + apply pat_eqb_eq in E. cbn [In]. split.
      * intros [H|H]; [now left|]. right. split; [now right|]. intros Hp. apply Hy. rewrite E, <- Hp. now apply in_map.
      * intros [H|[[H|H] Hp]]; [now left| |now right]. subst y. congruence.
    + apply pat_eqb_neq in E. cbn [In]. rewrite IH by auto. split.
      * intros [H|[H|[H Hp]]]; [right; split; [now left|congruence]|now left|right; split; [now right|auto]].
      * intros [H|[[H|H] Hp]]; [right; now left|now left|right; right; auto].
Qed.

Lemma groups_put_iff : forall gs e x, wf_groups gs ->
  (In x (flat_map snd (groups_put gs (length (e_pat e)) e)) <-> x = e \/ (In x (flat_map snd gs) /\ e_pat x <> e_pat e)).
Proof.
  induction gs as [|[k es] gs IH]; intros e x [Hnd Hwf]; cbn [groups_put flat_map snd].
  - cbn. split; [intros [H|[]]; now left|intros [H|[[] _]]; now left].
  - cbn in Hnd. inversion Hnd as [|? ? Hk Hnd']; subst.
    assert (Hgs : wf_groups gs) by (split; auto; intros g Hg; apply Hwf; now right).
    destruct (Hwf (k, es) (or_introl eq_refl)) as [G1 [G2 [G3 G4]]]. cbn [fst snd] in *.
    destruct (Nat.eqb k (length (e_pat e))) eqn:E; cbn [flat_map snd]; rewrite !in_app_iff.
    + apply Nat.eqb_eq in E. rewrite entries_put_iff by auto. split.
      * intros [[H|[H Hp]]|H]; [now left|right; split; [now left|auto]|].
        right. split; [now right|]. intros Hp. apply in_flat_map in H as [g [Hg Hx]].
        destruct (Hwf g (or_intror Hg)) as [_ [_ [Hlen _]]]. apply Hk.
        replace k with (fst g); [now apply in_map|]. rewrite <- (Hlen x Hx), Hp. now symmetry.
      * intros [H|[[H|H] Hp]]; [left; now left|left; right; auto|now right].
    + rewrite (IH e x Hgs). split.
      * intros [H|[H|[H Hp]]]; [|now left|right; split; [now right|auto]].
        right. split; [now left|]. intros Hp. apply Nat.eqb_neq in E. apply E. rewrite <- Hp. symmetry. now apply G3.
      * intros [H|[[H|H] Hp]]; [right; now left|now left|right; right; auto].
Qed.

Lemma all_entries_put : forall m p f x, wf_groups (m_groups m) -> p <> [] ->
  (In x (all_entries (m_put m p f)) <-> x = mkEntry p f \/ (In x (all_entries m) /\ e_pat x <> p)).
Proof.
  intros m p f x Hw Hp. unfold all_entries, m_put. destruct p as [|c p]; [congruence|]. cbn [m_groups].
  apply (groups_put_iff (m_groups m) (mkEntry (c :: p) f) x Hw).
Qed.

Lemma all_entries_set_filter : forall m p f e x, wf_groups (m_groups m) -> m_get m p = Some e ->
  (In x (all_entries (m_set_filter m p f)) <-> x = mkEntry p f \/ (In x (all_entries m) /\ e_pat x <> p)).
Proof.
  intros m p f e x Hw Hg. unfold all_entries, m_set_filter. rewrite Hg. cbn [m_groups].
  apply (groups_put_iff (m_groups m) (mkEntry p f) x Hw).
Qed.

Lemma m_get_some : forall m p e, m_get m p = Some e -> In e (all_entries m) /\ e_pat e = p.
Proof.
  intros m p e H. unfold m_get in H. apply entries_get_some in H as [H1 H2]. split; auto.
  apply group_get_in in H1 as [g [Hg [_ He]]]. apply in_all_entries. eauto.
Qed.

Lemma m_get_none : forall m p, wf_groups (m_groups m) -> m_get m p = None -> forall e, In e (all_entries m) -> e_pat e <> p.
Proof.
  intros m p Hw H e He Hp. unfold m_get in H. rewrite entries_get_none in H.
  apply (H e); auto. rewrite <- Hp. now apply entry_in_its_group.
Qed.

(* two entries with the same path are the same entry *)
Lemma entries_unique : forall m a b, wf_groups (m_groups m) -> In a (all_entries m) -> In b (all_entries m) ->
  e_pat a = e_pat b -> a = b.
Proof.
  intros m a b Hw Ha Hb Hp.
  apply (entry_in_its_group m a Hw) in Ha. apply (entry_in_its_group m b Hw) in Hb. rewrite Hp in Ha.
  apply group_get_in in Ha as [g [Hg [Hd Ha]]]. apply group_get_in in Hb as [g' [Hg' [Hd' Hb]]].
  destruct Hw as [Hnd Hwf].
  assert (g = g').
  { clear - Hnd Hg Hg' Hd Hd'. induction (m_groups m) as [|x l IH]; [contradiction|].
    cbn in Hnd. inversion Hnd as [|? ? Hx Hnd']; subst.
    destruct Hg as [Hg|Hg], Hg' as [Hg'|Hg']; subst; auto.
    - exfalso. apply Hx. rewrite Hd, <- Hd'. now apply in_map.
    - exfalso. apply Hx. rewrite Hd', <- Hd. now apply in_map. }
  subst g'. destruct (Hwf g Hg) as [_ [_ [_ Hnp]]].
  clear - Hnp Ha Hb Hp. induction (snd g) as [|x l IH]; [contradiction|].
  cbn in Hnp. inversion Hnp as [|? ? Hx Hnp']; subst.
  destruct Ha as [Ha|Ha], Hb as [Hb|Hb]; subst; auto.
  - exfalso. apply Hx. rewrite Hp. now apply in_map.
  - exfalso. apply Hx. rewrite <- Hp. now apply in_map.
Qed.

(* GetMatchCount with the node's payload: the entries whose path and filter accept *)
Definition ematch (e : entry) (q : path) (v : payload) : bool :=
  pat_matches (e_pat e) q && filter_ok (e_flt e) (Some v).

Lemma count_in_groups_gen : forall (R : entry -> bool) gs p, NoDup (map fst gs) -> (forall g, In g gs -> wf_group g) ->
  length (filter (fun e => pat_matches (e_pat e) p && R e) (flat_map snd gs))
  = length (filter (fun e => pat_matches (e_pat e) p && R e) (group_get gs (length p))).
Proof.
  intros R. induction gs as [|[k es] gs IH]; intros p Hnd Hwf; cbn; auto.
  inversion Hnd as [|? ? Hk Hnd']; subst.
  rewrite filter_app, app_length.
  destruct (Nat.eqb k (length p)) eqn:E.
  - apply Nat.eqb_eq in E.
    rewrite (filter_none _ _ (flat_map snd gs)); [cbn; lia|].
    intros e He. apply in_flat_map in He as [g [Hg He]].
    destruct (Hwf g (or_intror Hg)) as [_ [_ [Hlen _]]].
    destruct (pat_matches (e_pat e) p) eqn:Em; auto. apply pat_matches_length in Em.
    exfalso. apply Hk. rewrite (Hlen e He) in Em. subst k. rewrite <- Em. now apply in_map.
  - rewrite (filter_none _ _ es).
    + cbn. apply IH; auto. intros g Hg. apply Hwf. now right.
    + intros e He. destruct (Hwf (k, es) (or_introl eq_refl)) as [_ [_ [Hlen _]]].
      destruct (pat_matches (e_pat e) p) eqn:Em; auto. apply pat_matches_length in Em.
      cbn in Hlen. rewrite (Hlen e He) in Em. apply Nat.eqb_neq in E. contradiction.
Qed.

Lemma match_count_data_spec : forall m p v, wf_groups (m_groups m) ->
  match_count m p (Some v) 0 = N.of_nat (length (filter (fun e => ematch e p v) (all_entries m))).
Proof.
  intros m p v [Hnd Hwf]. unfold match_count, all_entries, ematch. cbn [Nat.ltb Nat.leb].
  rewrite Nat.sub_0_r. f_equal.
  rewrite (count_in_groups_gen (fun e => filter_ok (e_flt e) (Some v))); auto.
Qed.

Lemma matches_path_ematch : forall m q v, wf_groups (m_groups m) ->
  matches_path m q (Some v) = true <-> exists e, In e (all_entries m) /\ ematch e q v = true.
Proof.
  intros m q v Hw. rewrite matches_path_spec by auto. unfold ematch. split.
  - intros [e [H1 [H2 H3]]]. exists e. split; auto. now rewrite H2, H3.
  - intros [e [H1 H2]]. apply andb_true_iff in H2 as [H2 H3]. eauto.
Qed.


(* the paths of a table are pairwise distinct *)
Lemma all_pats_nodup : forall m, wf_groups (m_groups m) -> NoDup (map e_pat (all_entries m)).
Proof.
  intros m [Hnd Hwf]. unfold all_entries. induction (m_groups m) as [|[k es] gs IH]; cbn; [constructor|].
  cbn in Hnd. inversion Hnd as [|? ? Hk Hnd']; subst.
  rewrite map_app. apply NoDup_app_intro.
  - destruct (Hwf (k, es) (or_introl eq_refl)) as [_ [_ [_ H]]]. exact H.
  - apply IH; auto. intros g Hg. apply Hwf. now right.
  - intros p Hp1 Hp2. apply in_map_iff in Hp1 as [a [Ha1 Ha2]]. apply in_map_iff in Hp2 as [b [Hb1 Hb2]].
    apply in_flat_map in Hb2 as [g [Hg Hb2]].
    destruct (Hwf (k, es) (or_introl eq_refl)) as [_ [_ [Hl1 _]]].
    destruct (Hwf g (or_intror Hg)) as [_ [_ [Hl2 _]]]. cbn in Hl1.
    apply Hk. replace k with (fst g); [now apply in_map|].
    rewrite <- (Hl2 b Hb2), <- (Hl1 a Ha2). congruence.
Qed.

(* more than one matching entry: one of them has a path other than p *)
Lemma other_match : forall m (f : entry -> bool) p, wf_groups (m_groups m) ->
  ~ length (filter f (all_entries m)) <= 1 ->
  exists x, In x (all_entries m) /\ f x = true /\ e_pat x <> p.
Proof.
  intros m f p Hw Hlen. pose proof (all_pats_nodup m Hw) as Hnd.
  revert Hnd Hlen. generalize (all_entries m). intros l Hnd Hlen.
  assert (H2 : exists x y, In x l /\ In y l /\ f x = true /\ f y = true /\ e_pat x <> e_pat y).
  { induction l as [|a l IH]; [cbn in Hlen; lia|].
    cbn in Hnd. inversion Hnd as [|? ? Ha Hnd']; subst. cbn [filter] in Hlen.
    destruct (f a) eqn:Ea.
    - cbn [length] in Hlen.
      destruct (filter f l) as [|b r] eqn:Ef; [cbn in Hlen; lia|].
      assert (Hb : In b (filter f l)) by (rewrite Ef; now left). apply filter_In in Hb as [Hb1 Hb2].
      exists a, b. split; [now left|split; [now right|split; [auto|split; [auto|]]]].
      intros E. apply Ha. rewrite E. now apply in_map.
    - destruct (IH Hnd' Hlen) as [x [y [H1 [H3 H4]]]]. exists x, y. split; [now right|split; [now right|auto]]. }
  destruct H2 as [x [y [Hx [Hy [Hfx [Hfy Hne]]]]]].
  destruct (pat_eqb (e_pat x) p) eqn:E.
  - apply pat_eqb_eq in E. exists y. split; [auto|split; [auto|congruence]].
  - apply pat_eqb_neq in E. exists x. auto.
Qed.


(* ------------------------------------------------------------------ a matcher built from a key list *)

Lemma fold_put_wf : forall (l : list (pat * option qfilter)) m, wf_groups (m_groups m) ->
  wf_groups (m_groups (fold_left (fun m pf => m_put m (fst pf) (snd pf)) l m)).
Proof. induction l as [|pf l IH]; intros m H; cbn; auto. apply IH. now apply wf_put. Qed.

Lemma m_of_list_wf : forall l, wf_groups (m_groups (m_of_list l)).
Proof. intros l. unfold m_of_list. apply fold_put_wf. apply wf_empty. Qed.

Lemma fold_put_entries : forall (l : list (pat * option qfilter)) m x, wf_groups (m_groups m) ->
  NoDup (map fst l) -> (forall pf, In pf l -> fst pf <> []) ->
  (forall pf e, In pf l -> In e (all_entries m) -> e_pat e <> fst pf) ->
  (In x (all_entries (fold_left (fun m pf => m_put m (fst pf) (snd pf)) l m))
   <-> In x (all_entries m) \/ exists pf, In pf l /\ x = mkEntry (fst pf) (snd pf)).
Proof.
  induction l as [|[p f] l IH]; intros m x Hw Hnd Hne Hdis; cbn [fold_left].
  - split; [now left|]. intros [H|[pf [[] _]]]. exact H.
  - cbn [map fst] in Hnd. inversion Hnd as [|? ? Hp Hnd']; subst. cbn [fst snd].
    assert (Hpne : p <> []) by (apply (Hne (p, f)); now left).
    rewrite IH; auto.
    + rewrite all_entries_put by auto. split.
      * intros [[H|[H _]]|[pf [H1 H2]]].
        -- right. exists (p, f). split; [now left|auto].
        -- now left.
        -- right. exists pf. split; [now right|auto].
      * intros [H|[pf [[H1|H1] H2]]].
        -- left. right. split; auto. apply (Hdis (p, f) x); auto. now left.
        -- subst pf. left. left. exact H2.
        -- right. exists pf. auto.
    + now apply wf_put.
    + intros pf Hpf. apply Hne. now right.
    + intros pf e Hpf He. apply all_entries_put in He as [He|[He _]]; auto.
      * subst e. cbn [e_pat]. intros E. apply Hp. rewrite E. now apply in_map.
      * apply (Hdis pf e); auto. now right.
Qed.

Lemma m_of_list_entries : forall l x, NoDup (map fst l) -> (forall pf, In pf l -> fst pf <> []) ->
  (In x (all_entries (m_of_list l)) <-> exists pf, In pf l /\ x = mkEntry (fst pf) (snd pf)).
Proof.
  intros l x Hnd Hne. unfold m_of_list.
  rewrite fold_put_entries; [|apply wf_empty|exact Hnd|exact Hne|intros pf e _ []].
  split; [intros [[]|H]; auto|intros H; now right].
Qed.

End MatcherProofs.

Section RemoveSubset.
Context {M : MatchOps} {L : MatchLaws M}.

Lemma groups_remove_in : forall gs d p x, In x (flat_map snd (groups_remove gs d p)) -> In x (flat_map snd gs).
Proof.
  induction gs as [|[k es] gs IH]; intros d p x H; cbn [groups_remove flat_map snd] in *; auto.
  destruct (Nat.eqb k d).
  - destruct (entries_remove es p) as [|y ys] eqn:Er.
    + apply in_or_app. now right.
    + cbn [flat_map snd] in H. apply in_app_or in H as [H|H]; apply in_or_app; [left|now right].
      apply (entries_remove_in es p). now rewrite Er.
  - cbn [flat_map snd] in H. apply in_app_or in H as [H|H]; apply in_or_app; [now left|right; eauto].
Qed.

Lemma all_entries_remove : forall m p m' x, m_remove m p = Some m' -> In x (all_entries m') -> In x (all_entries m).
Proof.
  intros m p m' x H Hx. unfold m_remove in H. destruct (m_get m p); [|discriminate]. inversion H; subst.
  unfold all_entries in *. cbn [m_groups] in Hx. now apply groups_remove_in in Hx.
Qed.

End RemoveSubset.
