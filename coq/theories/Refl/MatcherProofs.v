(* Refl/MatcherProofs.v -- well-formedness of a PathMatcher table and what the table operations do to
   the flat list of entries. *)
From Coq Require Import List NArith ZArith Bool Arith Lia Permutation.
From Muscle Require Import Refl.Base Refl.BaseProofs Refl.Tree Refl.Matcher Refl.Traverse.
Import ListNotations.

Section MatcherProofs.
Context {M : MatchOps} {L : MatchLaws M}.

Definition wf_group (g : group) : Prop :=
  snd g <> [] /\ 1 <= fst g /\ (forall e, In e (snd g) -> length (e_pat e) = fst g) /\ NoDup (map e_pat (snd g)).

Definition wf_groups (gs : list group) : Prop :=
  NoDup (map fst gs) /\ forall g, In g gs -> wf_group g.

Definition count_filters (gs : list group) : nat := length (filter has_filter (flat_map snd gs)).

Definition wf_matcher (m : matcher) : Prop :=
  wf_groups (m_groups m) /\ m_nfilters m = N.of_nat (count_filters (m_groups m)).

Lemma wf_empty : wf_matcher empty_matcher.
Proof. split; [split; [constructor|intros g []]|reflexivity]. Qed.

(* ------------------------------------------------------------------ lookups *)

Lemma group_get_in : forall gs d e, In e (group_get gs d) -> exists g, In g gs /\ fst g = d /\ In e (snd g).
Proof.
  induction gs as [|[k es] gs IH]; intros d e H; cbn in H; [contradiction|].
  destruct (Nat.eqb k d) eqn:E.
  - apply Nat.eqb_eq in E. exists (k, es). split; [now left|auto].
  - apply IH in H as [g [H1 H2]]. exists g. split; [now right|auto].
Qed.

Lemma group_get_found : forall gs g, NoDup (map fst gs) -> In g gs -> group_get gs (fst g) = snd g.
Proof.
  induction gs as [|[k es] gs IH]; intros g Hnd Hin; [contradiction|]. cbn.
  inversion Hnd as [|? ? Hk Hnd']; subst.
  destruct Hin as [Hin|Hin].
  - subst. cbn. now rewrite Nat.eqb_refl.
  - destruct (Nat.eqb k (fst g)) eqn:E; [|now apply IH].
    apply Nat.eqb_eq in E. exfalso. apply Hk. subst k. now apply in_map.
Qed.

Lemma in_all_entries : forall m e, In e (all_entries m) <-> exists g, In g (m_groups m) /\ In e (snd g).
Proof. intros m e. unfold all_entries. now rewrite in_flat_map. Qed.

(* an entry of the matcher is found in the group of its clause count *)
Lemma entry_in_its_group : forall m e, wf_groups (m_groups m) ->
  In e (all_entries m) <-> In e (group_get (m_groups m) (length (e_pat e))).
Proof.
  intros m e [Hnd Hwf]. split; intros H.
  - apply in_all_entries in H as [g [Hg He]].
    destruct (Hwf g Hg) as [_ [_ [Hlen _]]]. rewrite (Hlen e He). now rewrite (group_get_found _ g Hnd Hg).
  - apply group_get_in in H as [g [Hg [_ He]]]. apply in_all_entries. eauto.
Qed.

Lemma group_get_length : forall m d e, wf_groups (m_groups m) -> In e (group_get (m_groups m) d) -> length (e_pat e) = d.
Proof.
  intros m d e [_ Hwf] H. apply group_get_in in H as [g [Hg [Hd He]]].
  destruct (Hwf g Hg) as [_ [_ [Hlen _]]]. rewrite <- Hd. now apply Hlen.
Qed.

Lemma active_spec : forall m rel e, wf_groups (m_groups m) ->
  In e (active m rel) <-> In e (all_entries m) /\ rel < length (e_pat e).
Proof.
  intros m rel e [_ Hwf]. unfold active. rewrite in_flat_map. split.
  - intros [g [Hg He]]. destruct (Nat.ltb rel (fst g)) eqn:E; [|contradiction].
    apply Nat.ltb_lt in E. destruct (Hwf g Hg) as [_ [_ [Hlen _]]]. rewrite (Hlen e He).
    split; auto. apply in_all_entries. eauto.
  - intros [H Hlt]. apply in_all_entries in H as [g [Hg He]]. exists g. split; auto.
    destruct (Hwf g Hg) as [_ [_ [Hlen _]]]. rewrite (Hlen e He) in Hlt.
    apply Nat.ltb_lt in Hlt. now rewrite Hlt.
Qed.

(* MatchesNode = some entry of the whole table matches (its group is implied by the clause count) *)
Lemma matches_node_spec : forall m p d rd, wf_groups (m_groups m) -> rd <= length p ->
  matches_node m p d rd = true <-> exists e, In e (all_entries m) /\ path_matches e p d rd = true.
Proof.
  intros m p d rd Hwf Hrd. unfold matches_node.
  assert (Nat.ltb (length p) rd = false) as -> by (apply Nat.ltb_ge; lia).
  rewrite existsb_exists. split; intros [e [He Hm]]; exists e; split; auto.
  - apply group_get_in in He as [g [Hg [_ He]]]. apply in_all_entries. eauto.
  - assert (Hl : length (e_pat e) = length p - rd).
    { unfold path_matches in Hm. apply andb_true_iff in Hm as [Hm _].
      apply pat_matches_length in Hm. rewrite skipn_length in Hm. exact Hm. }
    rewrite <- Hl. now apply entry_in_its_group.
Qed.

Lemma matches_path_spec : forall m p d, wf_groups (m_groups m) ->
  matches_path m p d = true <-> exists e, In e (all_entries m) /\ pat_matches (e_pat e) p = true /\ filter_ok (e_flt e) d = true.
Proof.
  intros m p d Hwf. unfold matches_path. rewrite existsb_exists. split.
  - intros [e [He Hm]]. apply andb_true_iff in Hm as [H1 H2]. exists e. split; auto.
    apply group_get_in in He as [g [Hg [_ He]]]. apply in_all_entries. eauto.
  - intros [e [He [H1 H2]]]. exists e. split; [|now rewrite H1, H2].
    rewrite <- (pat_matches_length _ _ H1). now apply entry_in_its_group.
Qed.

Lemma matches_node_path : forall m p d, wf_groups (m_groups m) -> matches_node m p d 0 = matches_path m p d.
Proof.
  intros m p d Hwf. unfold matches_node, matches_path, path_matches. cbn. now rewrite Nat.sub_0_r.
Qed.

(* number of entries whose path matches p (filters ignored) *)
Definition count_matching (m : matcher) (p : path) : nat :=
  length (filter (fun e => pat_matches (e_pat e) p) (all_entries m)).

Lemma filter_none : forall (A : Type) (f : A -> bool) l, (forall x, In x l -> f x = false) -> filter f l = [].
Proof.
  induction l as [|x l IH]; intros H; cbn; auto.
  rewrite (H x (or_introl eq_refl)). apply IH. intros y Hy. apply H. now right.
Qed.

Lemma count_in_groups : forall gs p, NoDup (map fst gs) -> (forall g, In g gs -> wf_group g) ->
  length (filter (fun e => pat_matches (e_pat e) p) (flat_map snd gs))
  = length (filter (fun e => pat_matches (e_pat e) p) (group_get gs (length p))).
Proof.
  induction gs as [|[k es] gs IH]; intros p Hnd Hwf; cbn; auto.
  inversion Hnd as [|? ? Hk Hnd']; subst.
  rewrite filter_app, app_length.
  destruct (Nat.eqb k (length p)) eqn:E.
  - apply Nat.eqb_eq in E.
    rewrite (filter_none _ _ (flat_map snd gs)); [cbn; lia|].
    intros e He. apply in_flat_map in He as [g [Hg He]].
    destruct (Hwf g (or_intror Hg)) as [_ [_ [Hlen _]]].
    destruct (pat_matches (e_pat e) p) eqn:Em; auto. apply pat_matches_length in Em.
    exfalso. apply Hk. rewrite (Hlen e He) in Em. subst k. rewrite <- Em. now apply in_map.
  - rewrite (filter_none _ _ es).
    + cbn. apply IH; auto. intros g Hg. apply Hwf. now right.
    + intros e He. destruct (Hwf (k, es) (or_introl eq_refl)) as [_ [_ [Hlen _]]].
      destruct (pat_matches (e_pat e) p) eqn:Em; auto. apply pat_matches_length in Em.
      cbn in Hlen. rewrite (Hlen e He) in Em. apply Nat.eqb_neq in E. contradiction.
Qed.

Lemma match_count_spec : forall m p, wf_groups (m_groups m) ->
  match_count m p None 0 = N.of_nat (count_matching m p).
Proof.
  intros m p [Hnd Hwf]. unfold match_count, count_matching, all_entries. cbn [Nat.ltb Nat.leb].
  rewrite Nat.sub_0_r. f_equal. rewrite count_in_groups; auto.
  f_equal. apply filter_ext. intros e. unfold path_matches, filter_ok. cbn. destruct (e_flt e); now rewrite andb_true_r.
Qed.

End MatcherProofs.
