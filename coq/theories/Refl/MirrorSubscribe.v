(* Refl/MirrorSubscribe.v -- the subscriber's own PR_COMMAND_SETPARAMETERS: filter changes of existing
   subscriptions (ChangeQueryFilterCallback with the F37 repair), new subscriptions, the flush (F38 repair) and
   the initial-values GETDATA; and its own unsubscribe followed by the client's pruning. *)
From Coq Require Import List NArith ZArith Bool Arith Lia.
From Muscle Require Import Gen.Consts Refl.Base Refl.BaseProofs Refl.Tree Refl.TreeProofs Refl.Matcher Refl.MatcherProofs
     Refl.Traverse Refl.TraverseFold Refl.TraverseSpec Refl.Session Refl.Server Refl.ServerProofs Refl.Mirror Refl.MirrorBase
     Refl.MirrorServer Refl.MirrorNotify Refl.MirrorSem Refl.MirrorSteps Refl.MirrorHandlers.
Import ListNotations.

Section Sub.
Context {M : MatchOps} {L : MatchLaws M}.
Variable fx : fixes.
Hypothesis guard_on : fx_guard fx = true.
Hypothesis overlap_on : fx_overlap fx = true.
Variable mir : mirror.
Variable s : sid.                (* the subscriber *)

Notation J := (J mir).
Notation V := (V mir).

(* ------------------------------------------------------------------ ChangeQueryFilterCallback on one node *)

(* whether the callback announces the node: the filter verdict flips and no other subscription accepts the node *)
Definition cqf_decide (subs : matcher) (oldf newf : option qfilter) (n : node) : bool :=
  let d := Some (n_data n) in
  negb (Bool.eqb (filter_ok oldf d) (filter_ok newf d))
  && N.leb (match_count subs (n_path n) d 0) (if filter_ok oldf d then 1 else 0).

Lemma V_cqf : forall sv ss oldf newf n q, pend_ok sv -> get_session sv s = Some ss ->
  V (cqf_cb fx s oldf newf sv n) s q
  = if path_eqb (n_path n) q && cqf_decide (s_subs ss) oldf newf n
    then Some (if filter_ok oldf (Some (n_data n)) then None else Some (n_data n))
    else V sv s q.
Proof.
  intros sv ss oldf newf n q Hpo Hss. unfold cqf_cb, cqf_decide. rewrite Hss, overlap_on. cbn [andb].
  destruct (Bool.eqb (filter_ok oldf (Some (n_data n))) (filter_ok newf (Some (n_data n)))) eqn:E; cbn [negb andb].
  - now rewrite andb_false_r.
  - destruct (N.leb (match_count (s_subs ss) (n_path n) (Some (n_data n)) 0)
                    (if filter_ok oldf (Some (n_data n)) then 1 else 0)) eqn:El; cbn [negb].
    + rewrite (V_nca mir sv s (n_path n) (n_data n) _ s q Hpo) by eauto.
      rewrite N.eqb_refl, Hss. cbn [andb option_map]. rewrite andb_true_r.
      destruct (path_eqb (n_path n) q); reflexivity.
    + now rewrite andb_false_r.
Qed.

Lemma cqf_fold : forall oldf newf (l : list node) sv ss,
  NoDup (map n_path l) -> pend_ok sv -> get_session sv s = Some ss ->
  let sv' := fold_left (cqf_cb fx s oldf newf) l sv in
  pend_ok sv' /\ same_core sv sv'
  /\ forall q, V sv' s q
       = match find (fun n => path_eqb (n_path n) q) l with
         | Some n => if cqf_decide (s_subs ss) oldf newf n
                     then Some (if filter_ok oldf (Some (n_data n)) then None else Some (n_data n))
                     else V sv s q
         | None => V sv s q
         end.
Proof.
  intros oldf newf. induction l as [|n l IH]; intros sv ss Hnd Hpo Hss; cbn [fold_left].
  - split; [auto|split; [apply same_core_refl|]]. intros q. reflexivity.
  - cbn in Hnd. inversion Hnd as [|? ? Hn Hnd']; subst.
    set (sv1 := cqf_cb fx s oldf newf sv n).
    assert (Hc1 : same_core sv sv1) by apply cqf_cb_core.
    assert (Hpo1 : pend_ok sv1) by (now apply pend_ok_cqf).
    destruct (get_session_core_some sv sv1 s ss Hc1 Hss) as [ss1 [Hss1 Hsub1]].
    destruct (IH sv1 ss1 Hnd' Hpo1 Hss1) as [H1 [H2 H3]].
    split; [auto|split; [eapply same_core_trans; eauto|]].
    intros q. rewrite H3, Hsub1. cbn [find].
    unfold sv1. rewrite (V_cqf sv ss oldf newf n q Hpo Hss).
    destruct (path_eqb (n_path n) q) eqn:E; cbn [andb].
    + apply path_eqb_eq in E. subst q.
      assert (find (fun n0 => path_eqb (n_path n0) (n_path n)) l = None) as ->.
      { destruct (find (fun n0 => path_eqb (n_path n0) (n_path n)) l) as [x|] eqn:Ef; auto.
        apply find_some in Ef as [Hx1 Hx2]. apply path_eqb_eq in Hx2. exfalso. apply Hn. rewrite <- Hx2. now apply in_map. }
      reflexivity.
    + reflexivity.
Qed.


(* ------------------------------------------------------------------ the invariant inside one SETPARAMETERS *)

(* T = the subscription paths this Message has dealt with so far.  While the loop runs, the virtual mirror
   (K1) holds nothing the current subscriptions do not select, and (K2) holds every node selected by a
   subscription the Message has not touched. *)
Definition K (sv : server) (T : list pat) : Prop :=
  forall ss, get_session sv s = Some ss -> forall q, own_node ss q = false ->
    (exp_with (s_subs ss) q (data_at (sv_tree sv) q) = None -> V sv s q = Some None)
    /\ (forall e v, In e (all_entries (s_subs ss)) -> ~ In (e_pat e) T ->
                    data_at (sv_tree sv) q = Some v -> ematch e q v = true -> V sv s q = Some (Some v)).

Lemma exp_with_some : forall m q v, wf_groups (m_groups m) ->
  (exp_with m q (Some v) = Some v <-> exists e, In e (all_entries m) /\ ematch e q v = true).
Proof.
  intros m q v Hw. unfold exp_with. destruct (matches_path m q (Some v)) eqn:E.
  - apply matches_path_ematch in E; auto. split; auto.
  - split; [discriminate|]. intros H. apply matches_path_ematch in H; auto. congruence.
Qed.

Lemma exp_with_none : forall m q v, wf_groups (m_groups m) ->
  (exp_with m q (Some v) = None <-> forall e, In e (all_entries m) -> ematch e q v = false).
Proof.
  intros m q v Hw. unfold exp_with. destruct (matches_path m q (Some v)) eqn:E.
  - apply matches_path_ematch in E as [e [H1 H2]]; auto. split; [discriminate|]. intros H. rewrite (H e H1) in H2. discriminate.
  - split; auto. intros _ e He. destruct (ematch e q v) eqn:Em; auto.
    assert (matches_path m q (Some v) = true) by (apply matches_path_ematch; eauto). congruence.
Qed.

Lemma J_K : forall sv, marks_ok sv -> J sv s -> K sv [].
Proof.
  intros sv Hmk HJ ss Hss q Hown.
  assert (Hin : In ss (sv_sessions sv)) by (apply find_session_some in Hss; tauto).
  pose proof (proj1 (proj2 Hmk ss Hin)) as Hw.
  rewrite (HJ ss Hss q Hown), expected_exp_with. fold (data_at (sv_tree sv) q). split.
  - intros H. now rewrite H.
  - intros e v He _ Hd Hm. rewrite Hd. f_equal. apply exp_with_some; eauto.
Qed.

(* ------------------------------------------------------------------ the nodes one subscription path matches *)

Lemma vlist_single : forall t fp n, wf_tree t -> fp <> [] ->
  (In n (vlist t (single fp) [] false) <-> In n t /\ pat_matches fp (n_path n) = true).
Proof.
  intros t fp n Ht Hfp. rewrite vlist_spec by (auto; unfold single; now apply single_wf).
  cbn [length app]. unfold dsel, single. rewrite single_matches by auto. split.
  - intros [H1 [_ H3]]. auto.
  - intros [H1 H3]. split; [auto|split; [|auto]]. exists (n_path n). split; auto.
    destruct Ht as [_ [Hne _]]. now apply Hne.
Qed.

Lemma vlist_paths_nodup : forall t m root uf, wf_tree t -> wf_groups (m_groups m) ->
  NoDup (map n_path (vlist t m root uf)).
Proof.
  intros t m root uf Ht Hm. apply NoDup_map_in; [|now apply vlist_nodup].
  intros x y Hx Hy E. apply vlist_spec in Hx as [Hx _]; auto. apply vlist_spec in Hy as [Hy _]; auto.
  destruct Ht as [Hnd _]. now apply (node_eq_by_path t).
Qed.

Lemma find_by_path : forall (l : list node) q n, find (fun n => path_eqb (n_path n) q) l = Some n -> In n l /\ n_path n = q.
Proof. intros l q n H. apply find_some in H as [H1 H2]. apply path_eqb_eq in H2. auto. Qed.

Lemma find_by_path_none : forall (l : list node) q, find (fun n => path_eqb (n_path n) q) l = None ->
  forall n, In n l -> n_path n <> q.
Proof.
  intros l q H n Hn E. pose proof (find_none _ _ H n Hn) as H1. cbn in H1. rewrite E, path_eqb_refl in H1. discriminate.
Qed.

(* ------------------------------------------------------------------ the filter of an existing subscription changes *)

Lemma filter_len1 : forall (A : Type) (f : A -> bool) (l : list A) a b,
  length (filter f l) <= 1 -> In a l -> f a = true -> In b l -> f b = true -> a = b.
Proof.
  intros A f l a b Hlen Ha Hfa Hb Hfb.
  assert (Ha' : In a (filter f l)) by (apply filter_In; auto).
  assert (Hb' : In b (filter f l)) by (apply filter_In; auto).
  destruct (filter f l) as [|x [|y r]]; [contradiction| |cbn in Hlen; lia].
  destruct Ha' as [Ha'|[]], Hb' as [Hb'|[]]. congruence.
Qed.

Lemma K_change : forall B sv ss T fp newf e,
  inv B sv -> pend_ok sv -> get_session sv s = Some ss -> m_get (s_subs ss) fp = Some e -> fp <> [] ->
  ~ In fp T -> K sv T ->
  let sv1 := match newf, e_flt e with
             | None, None => sv
             | _, _ => do_traversal (continue_cb (cqf_cb fx s (e_flt e) newf)) (sv_tree sv) (single fp) [] false (fx_guard fx) sv
             end in
  let sv' := upd_session sv1 s (fun x => set_subs x (m_set_filter (s_subs x) fp newf)) in
  K sv' (fp :: T) /\ pend_ok sv'.
Proof.
  intros B sv ss T fp newf e I Hpo Hss Hget Hfp HnT HK sv1 sv'.
  pose proof (inv_tree _ _ _ I) as Ht.
  assert (Hin : In ss (sv_sessions sv)) by (apply find_session_some in Hss; tauto).
  destruct (inv_subs _ _ _ I ss Hin) as [[Hw _] _].
  destruct (m_get_some _ _ _ Hget) as [He Hep].
  set (Vl := vlist (sv_tree sv) (single fp) [] false).
  assert (Hnd : NoDup (map n_path Vl)) by (apply vlist_paths_nodup; auto; unfold single; now apply single_wf).
  (* what the traversal (if any) does to the virtual mirror *)
  assert (H1 : pend_ok sv1 /\ same_core sv sv1
               /\ forall q, V sv1 s q
                    = match find (fun n => path_eqb (n_path n) q) Vl with
                      | Some n => if cqf_decide (s_subs ss) (e_flt e) newf n
                                  then Some (if filter_ok (e_flt e) (Some (n_data n)) then None else Some (n_data n))
                                  else V sv s q
                      | None => V sv s q
                      end).
  { assert (Htrav : let svt := do_traversal (continue_cb (cqf_cb fx s (e_flt e) newf)) (sv_tree sv) (single fp) [] false (fx_guard fx) sv in
              pend_ok svt /\ same_core sv svt
              /\ forall q, V svt s q
                   = match find (fun n => path_eqb (n_path n) q) Vl with
                     | Some n => if cqf_decide (s_subs ss) (e_flt e) newf n
                                 then Some (if filter_ok (e_flt e) (Some (n_data n)) then None else Some (n_data n))
                                 else V sv s q
                     | None => V sv s q
                     end).
    { cbv zeta. rewrite guard_on, do_traversal_continue. now apply cqf_fold. }
    unfold sv1. destruct newf as [nf|], (e_flt e) as [of|] eqn:Eof; try exact Htrav.
    split; [auto|split; [apply same_core_refl|]]. intros q.
    destruct (find (fun n => path_eqb (n_path n) q) Vl); auto. }
  destruct H1 as [Hpo1 [Hc1 HV1]].
  destruct (get_session_core_some sv sv1 s ss Hc1 Hss) as [ss1 [Hss1 Hsub1]].
  split; [|apply pend_ok_upd_keep; [reflexivity|exact Hpo1]].
  (* the invariant afterwards *)
  intros ss' Hss' q Hown.
  unfold sv' in Hss'. rewrite get_session_upd in Hss' by reflexivity. rewrite N.eqb_refl, Hss1 in Hss'.
  cbn [option_map] in Hss'. inversion Hss'; subst ss'. clear Hss'.
  cbn [set_subs s_subs]. rewrite Hsub1.
  assert (Hown0 : own_node ss q = false).
  { destruct (get_session_sess sv sv1 s ss1 (same_core_sess _ _ Hc1) Hss1) as [ss0 [Hss0 [_ Hdir]]].
    assert (ss0 = ss) by congruence. subst ss0.
    rewrite (own_node_dir ss ss1 q Hdir). exact Hown. }
  destruct (HK ss Hss q Hown0) as [K1 K2].
  assert (HVq : V sv' s q = V sv1 s q) by (unfold sv'; apply V_upd_keep; intros x; auto).
  rewrite HVq, HV1.
  assert (Htree : sv_tree sv' = sv_tree sv) by (unfold sv'; cbn [sv_tree upd_session]; now destruct Hc1).
  rewrite Htree.
  set (E := s_subs ss) in *. set (E' := m_set_filter E fp newf).
  assert (Hw' : wf_groups (m_groups E')) by (now apply wf_set_filter).
  assert (HE' : forall x, In x (all_entries E') <-> x = mkEntry fp newf \/ (In x (all_entries E) /\ e_pat x <> fp))
    by (intros x; now apply (all_entries_set_filter E fp newf e)).
  assert (Hkeep : forall x, In x (all_entries E) -> e_pat x <> fp -> In x (all_entries E')) by (intros x H1 H2; apply HE'; auto).
  assert (Hold : forall x, In x (all_entries E') -> e_pat x <> fp -> In x (all_entries E)).
  { intros x H1 H2. apply HE' in H1 as [H1|[H1 _]]; auto. subst x. cbn in H2. congruence. }
  assert (Heq : forall x, In x (all_entries E) -> e_pat x = fp -> x = e) by (intros x H1 H2; apply (entries_unique E); auto; congruence).
  (* K2 for an entry the Message has still not touched is inherited *)
  assert (K2' : forall x v, In x (all_entries E') -> ~ In (e_pat x) (fp :: T) ->
                  data_at (sv_tree sv) q = Some v -> ematch x q v = true -> V sv s q = Some (Some v)).
  { intros x v Hx HnT' Hd Hm. apply (K2 x v); auto.
    - apply Hold; auto. intros Ep. apply HnT'. now left.
    - intros HT. apply HnT'. now right. }
  destruct (data_at (sv_tree sv) q) as [v|] eqn:Hdq.
  - (* a node at q *)
    unfold data_at in Hdq. destruct (find_node (sv_tree sv) q) as [nq|] eqn:Hfq; [|discriminate].
    cbn in Hdq. inversion Hdq; subst v. clear Hdq.
    pose proof (find_node_some _ _ _ Hfq) as [Hnq Hpq].
    destruct (pat_matches fp q) eqn:Epm.
    + (* the path matches the subscription being changed *)
      assert (HinVl : In nq Vl) by (apply vlist_single; auto; now rewrite Hpq).
      destruct (find (fun n => path_eqb (n_path n) q) Vl) as [n0|] eqn:Ef;
        [|exfalso; apply (find_by_path_none Vl q Ef nq HinVl Hpq)].
      apply find_by_path in Ef as [Hn0 Hp0].
      assert (n0 = nq).
      { apply vlist_single in Hn0 as [Hn0 _]; auto. destruct Ht as [Hndt _]. apply (node_eq_by_path (sv_tree sv)); auto. congruence. }
      subst n0.
      assert (Hme : ematch e q (n_data nq) = filter_ok (e_flt e) (Some (n_data nq))).
      { unfold ematch. rewrite Hep, Epm. reflexivity. }
      assert (Hme' : ematch (mkEntry fp newf) q (n_data nq) = filter_ok newf (Some (n_data nq))).
      { unfold ematch. cbn [e_pat e_flt]. rewrite Epm. reflexivity. }
      unfold cqf_decide. rewrite Hpq. fold E.
      rewrite (match_count_data_spec E q (n_data nq) Hw).
      destruct (filter_ok (e_flt e) (Some (n_data nq))) eqn:Eold, (filter_ok newf (Some (n_data nq))) eqn:Enew; cbn [Bool.eqb negb andb].
      * (* accepted before and after *)
        split; [|intros x v Hx HnT' Hd Hm; inversion Hd; subst v; apply (K2' x (n_data nq)); auto].
        intros Hexp. exfalso. rewrite exp_with_none in Hexp by auto.
        assert (In (mkEntry fp newf) (all_entries E')) by (apply HE'; now left).
        rewrite (Hexp _ H) in Hme'. discriminate.
      * (* accepted before, rejected now *)
        destruct (N.leb (N.of_nat (length (filter (fun e0 => ematch e0 q (n_data nq)) (all_entries E)))) 1) eqn:Ecnt.
        -- apply N.leb_le in Ecnt. split; [reflexivity|].
           intros x v Hx HnT' Hd Hm. inversion Hd; subst v. exfalso.
           assert (Hxp : e_pat x <> fp) by (intros Ep; apply HnT'; now left).
           assert (x = e); [|subst x; congruence].
           apply (filter_len1 _ (fun e0 => ematch e0 q (n_data nq)) (all_entries E) x e);
             [lia|now apply Hold|exact Hm|exact He|now rewrite Hme].
        -- apply N.leb_gt in Ecnt.
           destruct (other_match E (fun e0 => ematch e0 q (n_data nq)) fp Hw) as [x0 [Hx0 [Hm0 Hp0']]]; [lia|].
           split; [|intros x v Hx HnT' Hd Hm; inversion Hd; subst v; apply (K2' x (n_data nq)); auto].
           intros Hexp. exfalso. rewrite exp_with_none in Hexp by auto.
           rewrite (Hexp x0 (Hkeep x0 Hx0 Hp0')) in Hm0. discriminate.
      * (* rejected before, accepted now *)
        destruct (N.leb (N.of_nat (length (filter (fun e0 => ematch e0 q (n_data nq)) (all_entries E)))) 0) eqn:Ecnt.
        -- split; [|intros x v Hx HnT' Hd Hm; now inversion Hd].
           intros Hexp. exfalso. rewrite exp_with_none in Hexp by auto.
           assert (In (mkEntry fp newf) (all_entries E')) by (apply HE'; now left).
           rewrite (Hexp _ H) in Hme'. discriminate.
        -- apply N.leb_gt in Ecnt.
           destruct (filter (fun e0 => ematch e0 q (n_data nq)) (all_entries E)) as [|x0 r] eqn:Efl; [cbn in Ecnt; lia|].
           assert (Hx0 : In x0 (filter (fun e0 => ematch e0 q (n_data nq)) (all_entries E))) by (rewrite Efl; now left).
           apply filter_In in Hx0 as [Hx0 Hm0].
           assert (Hp0' : e_pat x0 <> fp).
           { intros Ep. rewrite (Heq x0 Hx0 Ep) in Hm0. rewrite Hme in Hm0. discriminate. }
           split; [|intros x v Hx HnT' Hd Hm; inversion Hd; subst v; apply (K2' x (n_data nq)); auto].
           intros Hexp. exfalso. rewrite exp_with_none in Hexp by auto.
           rewrite (Hexp x0 (Hkeep x0 Hx0 Hp0')) in Hm0. discriminate.
      * (* rejected before and after *)
        split; [|intros x v Hx HnT' Hd Hm; inversion Hd; subst v; apply (K2' x (n_data nq)); auto].
        intros Hexp. apply K1. rewrite exp_with_none in Hexp |- * by auto.
        intros x Hx. destruct (pat_eqb (e_pat x) fp) eqn:Ep.
        -- apply pat_eqb_eq in Ep. rewrite (Heq x Hx Ep). now rewrite Hme.
        -- apply pat_eqb_neq in Ep. apply Hexp. now apply Hkeep.
    + (* the path does not match the subscription being changed: nothing was said about q *)
      assert (find (fun n => path_eqb (n_path n) q) Vl = None) as ->.
      { destruct (find (fun n => path_eqb (n_path n) q) Vl) as [n0|] eqn:Ef; auto.
        apply find_by_path in Ef as [Hn0 Hp0]. apply vlist_single in Hn0 as [_ Hn0]; auto. rewrite Hp0 in Hn0. congruence. }
      split; [|intros x v Hx HnT' Hd Hm; inversion Hd; subst v; apply (K2' x (n_data nq)); auto].
      intros Hexp. apply K1. rewrite exp_with_none in Hexp |- * by auto.
      intros x Hx. destruct (pat_eqb (e_pat x) fp) eqn:Ep.
      * apply pat_eqb_eq in Ep. unfold ematch. now rewrite Ep, Epm.
      * apply pat_eqb_neq in Ep. apply Hexp. now apply Hkeep.
  - (* no node at q *)
    assert (find (fun n => path_eqb (n_path n) q) Vl = None) as ->.
    { destruct (find (fun n => path_eqb (n_path n) q) Vl) as [n0|] eqn:Ef; auto.
      apply find_by_path in Ef as [Hn0 Hp0]. apply vlist_single in Hn0 as [Hn0 _]; auto.
      unfold data_at in Hdq. rewrite <- Hp0, (find_node_in _ _ (proj1 Ht) Hn0) in Hdq. discriminate. }
    split; [intros _; now apply K1|]. intros x v _ _ Hd. discriminate.
Qed.


(* ------------------------------------------------------------------ a new subscription path *)

Lemma K_new : forall B sv ss T fp f,
  inv B sv -> get_session sv s = Some ss -> m_get (s_subs ss) fp = None -> fp <> [] -> K sv T ->
  let sv1 := upd_session sv s (fun x => set_subs x (m_put (s_subs x) fp f)) in
  let sv' := set_tree sv1 (mark_nodes fx (sv_tree sv1) (single fp) s 1) in
  K sv' (fp :: T).
Proof.
  intros B sv ss T fp f I Hss Hget Hfp HK sv1 sv'.
  assert (Hin : In ss (sv_sessions sv)) by (apply find_session_some in Hss; tauto).
  destruct (inv_subs _ _ _ I ss Hin) as [[Hw _] _].
  intros ss' Hss' q Hown.
  unfold sv', sv1 in Hss'.
  change (get_session (upd_session sv s (fun x => set_subs x (m_put (s_subs x) fp f))) s = Some ss') in Hss'.
  rewrite get_session_upd in Hss' by reflexivity. rewrite N.eqb_refl, Hss in Hss'. cbn [option_map] in Hss'.
  inversion Hss'; subst ss'. clear Hss'. cbn [set_subs s_subs].
  assert (Hown0 : own_node ss q = false) by exact Hown.
  destruct (HK ss Hss q Hown0) as [K1 K2].
  assert (HVq : V sv' s q = V sv s q).
  { unfold sv', sv1. rewrite V_set_tree. apply V_upd_keep. intros x; auto. }
  assert (Hdq : data_at (sv_tree sv') q = data_at (sv_tree sv) q).
  { unfold sv', sv1. cbn [sv_tree set_tree upd_session]. apply data_at_mark_gen. }
  rewrite HVq, Hdq.
  set (E := s_subs ss) in *. set (E' := m_put E fp f).
  assert (Hw' : wf_groups (m_groups E')) by (now apply wf_put).
  assert (HE' : forall x, In x (all_entries E') <-> x = mkEntry fp f \/ (In x (all_entries E) /\ e_pat x <> fp))
    by (intros x; now apply all_entries_put).
  split.
  - intros Hexp. apply K1. destruct (data_at (sv_tree sv) q) as [v|]; [|reflexivity].
    rewrite exp_with_none in Hexp |- * by auto. intros x Hx. apply Hexp. apply HE'. right. split; auto.
    now apply (m_get_none E fp Hw Hget).
  - intros x v Hx HnT' Hd Hm. apply (K2 x v); auto.
    + apply HE' in Hx as [Hx|[Hx _]]; auto. subst x. exfalso. apply HnT'. now left.
    + intros HT. apply HnT'. now right.
Qed.

(* ------------------------------------------------------------------ the loop over the SUBSCRIBE: fields *)

Definition fixed (subs : list (spath * option qfilter)) : list pat := map (fun sf => fix_path (fst sf)) subs.

Lemma subscribe_loop_K : forall subs B sv T, small (B + length subs) ->
  inv B sv -> pend_ok sv -> (exists ss, get_session sv s = Some ss) ->
  NoDup (fixed subs) -> (forall p, In p (fixed subs) -> p <> [] /\ ~ In p T) -> K sv T ->
  let sv' := fold_left (fun sv' sf => subscribe_one fx sv' s sf) subs sv in
  K sv' (rev (fixed subs) ++ T) /\ pend_ok sv' /\ inv (B + length subs) sv'
  /\ (exists ss', get_session sv' s = Some ss'
        /\ (forall sf, In sf subs -> In (mkEntry (fix_path (fst sf)) (snd sf)) (all_entries (s_subs ss')))
        /\ (forall x ss, get_session sv s = Some ss -> In x (all_entries (s_subs ss)) -> ~ In (e_pat x) (fixed subs) ->
                          In x (all_entries (s_subs ss')))).
Proof.
  induction subs as [|[sp f] subs IH]; intros B sv T HB I Hpo [ss Hss] Hnd Hok HK; cbn [fold_left fixed map length rev].
  - rewrite Nat.add_0_r. split; [exact HK|split; [auto|split; [auto|]]]. exists ss. split; [auto|split; [intros sf []|]].
    intros x ss0 Hss0 Hx _. congruence.
  - cbn [fixed map] in Hnd, Hok. inversion Hnd as [|? ? Hfp Hnd']; subst.
    destruct (Hok (fix_path sp) (or_introl eq_refl)) as [Hne HnT].
    assert (Hin : In ss (sv_sessions sv)) by (apply find_session_some in Hss; tauto).
    destruct (inv_subs _ _ _ I ss Hin) as [[Hw _] _].
    set (sv1 := subscribe_one fx sv s (sp, f)).
    assert (I1 : inv (S B) sv1).
    { apply subscribe_one_inv; auto. eapply small_le; [|exact HB]. cbn [length]. lia. }
    assert (Hpo1 : pend_ok sv1) by (now apply pend_ok_subscribe_one).
    (* one field *)
    assert (H1 : K sv1 (fix_path sp :: T)
                 /\ exists ss1, get_session sv1 s = Some ss1
                      /\ In (mkEntry (fix_path sp) f) (all_entries (s_subs ss1))
                      /\ (forall x, In x (all_entries (s_subs ss)) -> e_pat x <> fix_path sp -> In x (all_entries (s_subs ss1)))
                      /\ (forall x, In x (all_entries (s_subs ss1)) -> x = mkEntry (fix_path sp) f \/ In x (all_entries (s_subs ss)))).
    { unfold sv1, subscribe_one. cbn [fst snd]. rewrite Hss.
      destruct (fix_path sp) as [|c fp'] eqn:Efp; [congruence|]. rewrite <- Efp in *.
      destruct (m_get (s_subs ss) (fix_path sp)) as [e|] eqn:Hget.
      - destruct (K_change B sv ss T (fix_path sp) f e I Hpo Hss Hget Hne HnT HK) as [HK1 _]. split; [exact HK1|].
        match goal with |- exists ss1, get_session (upd_session ?X s _) s = _ /\ _ => set (svt := X) end.
        assert (Hct : same_core sv svt).
        { unfold svt. destruct f, (e_flt e); try apply cqf_traversal_core. apply same_core_refl. }
        destruct (get_session_core_some sv svt s ss Hct Hss) as [sst [Hsst Hsubt]].
        exists (set_subs sst (m_set_filter (s_subs sst) (fix_path sp) f)).
        rewrite get_session_upd by reflexivity. rewrite N.eqb_refl, Hsst. cbn [option_map set_subs s_subs]. rewrite Hsubt.
        split; [reflexivity|].
        split; [apply (all_entries_set_filter (s_subs ss) (fix_path sp) f e); auto|split].
        + intros x Hx Hp. apply (all_entries_set_filter (s_subs ss) (fix_path sp) f e); auto.
        + intros x Hx. apply (all_entries_set_filter (s_subs ss) (fix_path sp) f e) in Hx as [Hx|[Hx _]]; auto.
      - pose proof (K_new B sv ss T (fix_path sp) f I Hss Hget Hne HK) as HK1. split; [exact HK1|].
        exists (set_subs ss (m_put (s_subs ss) (fix_path sp) f)). split.
        { change (get_session (upd_session sv s (fun x => set_subs x (m_put (s_subs x) (fix_path sp) f))) s
                  = Some (set_subs ss (m_put (s_subs ss) (fix_path sp) f))).
          rewrite get_session_upd by reflexivity. rewrite N.eqb_refl, Hss. reflexivity. }
        cbn [set_subs s_subs].
        split; [apply all_entries_put; auto|split].
        + intros x Hx Hp. apply all_entries_put; auto.
        + intros x Hx. apply all_entries_put in Hx as [Hx|[Hx _]]; auto. }
    destruct H1 as [HK1 [ss1 [Hss1 [Hnew [Hkeep Hold]]]]].
    destruct (IH (S B) sv1 (fix_path sp :: T)) as [H2 [H3 [H4 [ss' [Hss' [H5 H6]]]]]]; auto.
    + eapply small_le; [|exact HB]. cbn [length]. lia.
    + eauto.
    + intros p Hp. destruct (Hok p (or_intror Hp)) as [Ha Hb]. split; auto.
      intros [Hc|Hc]; [|contradiction]. subst p. contradiction.
    + split; [|split; [auto|split]].
      * rewrite <- app_assoc. exact H2.
      * replace (B + S (length subs)) with (S B + length subs) by lia. exact H4.
      * exists ss'. split; [auto|split].
        -- intros sf [Hsf|Hsf]; [|now apply H5]. subst sf. cbn [fst snd].
           apply (H6 _ ss1 Hss1 Hnew). cbn [e_pat]. exact Hfp.
        -- intros x ss0 Hss0 Hx Hnx. assert (ss0 = ss) by congruence. subst ss0.
           apply (H6 x ss1 Hss1).
           ++ apply Hkeep; auto. intros Ep. apply Hnx. now left.
           ++ intros Hc. apply Hnx. now right.
Qed.

End Sub.
