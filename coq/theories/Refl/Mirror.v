(* Refl/Mirror.v -- the subscriber's side: a client's mirror of the node tree, and the "world"
   (server + one scripted client per session) the C04 statement is about.  Definitions only.

   The client-mirror rule (a premise of C04, stated here once):
     * the client applies every PR_RESULT_DATAITEMS Message it receives, in order; within one Message
       the removed-items strings first, then the Message-typed fields in field order, every value of a
       field in order (last one wins);
     * the server sends NO removals when a client unsubscribes (by design of the protocol): on its own
       unsubscribe the client drops from its mirror what its remaining subscriptions no longer cover
       (path and filter evaluated on the payload it holds);
     * a client whose mirror is to be exact issues no explicit PR_COMMAND_GETDATA and no quiet
       subscription (their replies / their missing replies are indistinguishable from updates). *)
From Coq Require Import List NArith ZArith Bool Arith.
From Muscle Require Import Refl.Base Refl.Tree Refl.Matcher Refl.Traverse Refl.Session Refl.Server.
Import ListNotations.

Definition mirror := list (path * payload).

Fixpoint mirror_get (m : mirror) (p : path) : option payload :=
  match m with
  | [] => None
  | (q, v) :: r => if path_eqb q p then Some v else mirror_get r p
  end.

Definition mirror_remove (m : mirror) (p : path) : mirror :=
  filter (fun qv => negb (path_eqb (fst qv) p)) m.

Fixpoint mirror_set (m : mirror) (p : path) (v : payload) : mirror :=
  match m with
  | [] => [(p, v)]
  | (q, w) :: r => if path_eqb q p then (q, v) :: r else (q, w) :: mirror_set r p v
  end.

(* one PR_RESULT_DATAITEMS Message: removals first, then sets *)
Definition apply_di (m : mirror) (d : ditems) : mirror :=
  let m1 := fold_left mirror_remove (di_removed d) m in
  fold_left (fun m' pv => fold_left (fun m'' v => mirror_set m'' (fst pv) v) (snd pv) m') (di_sets d) m1.

Definition apply_all (m : mirror) (ds : list ditems) : mirror := fold_left apply_di ds m.

Section World.
Context {M : MatchOps}.
Variable fx : fixes.

Record client := mkClient {
  c_id : sid;
  c_mirror : mirror;
  c_subs : matcher            (* the client's own record of its subscriptions (a plain PathMatcher) *)
}.

(* the client's part of an unsubscribe *)
Definition prune (c : client) : client :=
  mkClient (c_id c)
           (filter (fun pv => matches_path (c_subs c) (fst pv) (Some (snd pv))) (c_mirror c))
           (c_subs c).

(* what a command does to the client's own subscription record; the bool says an unsubscribe happened *)
Fixpoint client_cmd (m : matcher) (c : cmd) : matcher * bool :=
  match c with
  | CSubscribe _ subs => (fold_left (fun m' sf => m_put m' (fix_path (fst sf)) (snd sf)) subs m, false)
  | CUnsubscribe subs =>
    (fold_left (fun m' sp => match m_remove m' (fix_path sp) with Some m'' => m'' | None => m' end) subs m, true)
  | CBatch l =>
    (fix go (l : list cmd) (acc : matcher * bool) : matcher * bool :=
       match l with
       | [] => acc
       | c' :: r => let '(m1, u1) := client_cmd (fst acc) c' in go r (m1, snd acc || u1)
       end) l (m, false)
  | _ => (m, false)
  end.

Record world := mkWorld {
  w_srv : server;
  w_clients : list client;
  w_last : list (sid * list ditems)      (* the PR_RESULT_DATAITEMS Messages delivered by the last step, per session *)
}.

Definition empty_world : world := mkWorld empty_server [] [].

Definition deliver (sv : server) (c : client) : client :=
  match get_session sv (c_id c) with
  | Some ss => mkClient (c_id c) (apply_all (c_mirror c) (s_out ss)) (c_subs c)
  | None => c
  end.

Definition clear_outs (sv : server) : server :=
  mkServer (sv_tree sv) (map clear_out (sv_sessions sv)) (sv_dirty sv).

Definition world_step (w : world) (ev : event) : world :=
  let sv0 := w_srv w in
  let sv1 := step fx sv0 ev in
  let cl0 :=
    match ev with
    | EAttach s _ _ => match get_session sv0 s with
                       | Some _ => w_clients w
                       | None => w_clients w ++ [mkClient s [] empty_matcher]
                       end
    | EDetach s => w_clients w
    | ECmd s c =>
      match get_session sv0 s with
      | None => w_clients w
      | Some _ => map (fun x => if N.eqb (c_id x) s
                                then mkClient (c_id x) (c_mirror x) (fst (client_cmd (c_subs x) c)) else x) (w_clients w)
      end
    end in
  let cl1 := map (deliver sv1) cl0 in
  let cl2 :=
    match ev with
    | ECmd s c =>
      match get_session sv0 s with
      | None => cl1
      | Some _ => if snd (client_cmd empty_matcher c)
                  then map (fun x => if N.eqb (c_id x) s then prune x else x) cl1 else cl1
      end
    | EDetach s => filter (fun x => negb (N.eqb (c_id x) s)) cl1
    | _ => cl1
    end in
  mkWorld (clear_outs sv1) cl2 (map (fun ss => (s_id ss, s_out ss)) (sv_sessions sv1)).

Definition world_run (evs : list event) (w : world) : world := fold_left world_step evs w.

(* ------------------------------------------------------------------ the statement's vocabulary *)

(* path p lies in the subtree of the session node of session s *)
Definition own_path (ss : session) (p : path) : bool := is_prefix (session_dir ss) p.

(* what the mirror of session ss should hold at path p, read off the true tree *)
Definition expected (t : tree) (ss : session) (p : path) : option payload :=
  match find_node t p with
  | Some n => if matches_path (s_subs ss) p (Some (n_data n)) then Some (n_data n) else None
  | None => None
  end.

End World.
