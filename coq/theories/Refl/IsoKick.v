(* Refl/IsoKick.v -- C06, as-if-never with PR_COMMAND_KICK: what a departure does to the part of the state the simulation
   relation looks at, that departures of different sessions commute there, and which sessions a kick traversal marks. *)
From Coq Require Import List NArith ZArith Bool Arith Lia Permutation.
From Muscle Require Import Gen.Consts Refl.Base Refl.BaseProofs Refl.Tree Refl.TreeProofs Refl.Matcher Refl.MatcherProofs
     Refl.Traverse Refl.TraverseSpec Refl.TraverseProofs Refl.TraverseTheorems Refl.TraverseExit
     Refl.Session Refl.Server Refl.ServerProofs Refl.IsoModel Refl.IsoBase Refl.IsoTrav Refl.IsoFrame
     Refl.IsoSimBase Refl.IsoSimTrav Refl.IsoSim Refl.IsoDetach Refl.IsoRun Refl.IsoHosts Refl.IsoNever.
Import ListNotations.

(* ------------------------------------------------------------------ subscriber tables: negative adjustments commute *)

Lemma tbl_adjust_neg_nil : forall a d, (d < 0)%Z -> tbl_adjust [] a d = [].
Proof.
  intros a d Hd. unfold tbl_adjust. assert (Z.eqb d 0 = false) as -> by (apply Z.eqb_neq; lia).
  assert (Z.leb 0 d = false) as -> by (apply Z.leb_gt; lia). cbn [tbl_get].
  destruct (N.leb (Z.to_N (- d)) 0); reflexivity.
Qed.

Definition neg_new (c : N) (d : Z) : N := let d' := Z.to_N (Z.opp d) in if N.leb d' c then (c - d')%N else 0%N.

Lemma tbl_adjust_neg_cons : forall k c r a d, (d < 0)%Z ->
  tbl_adjust ((k, c) :: r) a d =
  if N.eqb k a then (if N.ltb 0 (neg_new c d) then (k, neg_new c d) :: r else r) else (k, c) :: tbl_adjust r a d.
Proof.
  intros k c r a d Hd. unfold tbl_adjust. assert (Z.eqb d 0 = false) as -> by (apply Z.eqb_neq; lia).
  assert (Z.leb 0 d = false) as -> by (apply Z.leb_gt; lia). cbn [tbl_get tbl_put tbl_remove].
  destruct (N.eqb k a) eqn:E; [reflexivity|].
  match goal with |- context [if N.ltb 0 ?x then _ else _] => destruct (N.ltb 0 x) end; reflexivity.
Qed.

Lemma tbl_adjust_neg_comm : forall t a b d, a <> b -> (d < 0)%Z ->
  tbl_adjust (tbl_adjust t a d) b d = tbl_adjust (tbl_adjust t b d) a d.
Proof.
  intros t a b d Hab Hd. induction t as [|[k c] r IH].
  - now rewrite !tbl_adjust_neg_nil.
  - rewrite (tbl_adjust_neg_cons k c r a d Hd), (tbl_adjust_neg_cons k c r b d Hd).
    destruct (N.eqb k a) eqn:Ea; destruct (N.eqb k b) eqn:Eb.
    + apply N.eqb_eq in Ea, Eb. congruence.
    + destruct (N.ltb 0 (neg_new c d)) eqn:Ec.
      * rewrite !tbl_adjust_neg_cons by exact Hd. now rewrite Ea, Eb, Ec.
      * rewrite tbl_adjust_neg_cons by exact Hd. now rewrite Ea, Ec.
    + destruct (N.ltb 0 (neg_new c d)) eqn:Ec.
      * rewrite !tbl_adjust_neg_cons by exact Hd. now rewrite Ea, Eb, Ec.
      * rewrite tbl_adjust_neg_cons by exact Hd. now rewrite Eb, Ec.
    + rewrite !tbl_adjust_neg_cons by exact Hd. rewrite Ea, Eb. now rewrite IH.
Qed.

Lemma cleanup_delta_neg : (cleanup_delta < 0)%Z.
Proof. reflexivity. Qed.

Section Kick.
Context {M : MatchOps} {L : MatchLaws M}.
Variable fx : fixes.
Hypothesis guard_on : fx_guard fx = true.

(* ------------------------------------------------------------------ what a departure does below host level *)

(* the part of a state the simulation relation of Refl/IsoSim.v reads on its right-hand side *)
Definition veq (X Y : server) : Prop := body (sv_tree X) = body (sv_tree Y) /\ all_params X = all_params Y.

Lemma veq_refl : forall X, veq X X.
Proof. intros; split; reflexivity. Qed.

Lemma veq_trans : forall X Y Z, veq X Y -> veq Y Z -> veq X Z.
Proof. intros X Y Z [A1 A2] [B1 B2]. split; congruence. Qed.

Lemma rel_veq : forall s F E E', rel s F E -> veq E E' -> rel s F E'.
Proof.
  intros s F E E' [R1 R2] [V1 V2]. split.
  - unfold rel_tree in *. now rewrite <- V1.
  - unfold rel_sess in *. now rewrite <- V2.
Qed.

Definition unmark (ss : session) (n : node) : node :=
  if matches_node (s_subs ss) (n_path n) None 0 then adj_node (s_id ss) cleanup_delta n else n.

Definition off_dir (ss : session) (n : node) : bool := negb (is_prefix (session_dir ss) (n_path n)).

Definition view_without (o : option session) (l : list node) : list node :=
  match o with Some ss => map (unmark ss) (filter (off_dir ss) l) | None => l end.

Lemma unmark_path : forall ss n, n_path (unmark ss n) = n_path n.
Proof. intros. unfold unmark. destruct (matches_node _ _ _ _); reflexivity. Qed.

Lemma body_tree_without : forall t ss, wf_tree t -> body (tree_without t ss) = view_without (Some ss) (body t).
Proof.
  intros t ss W. unfold tree_without, view_without, body. cbv zeta.
  change (fun n => if matches_node (s_subs ss) (n_path n) None 0 then adj_node (s_id ss) cleanup_delta n else n) with (unmark ss).
  rewrite (filter_map_pres _ nonhost (unmark ss)) by (intros n; unfold nonhost; now rewrite unmark_path). f_equal.
  set (t1 := prune_tree t (session_dir ss)).
  assert (W1 : wf_tree t1) by now apply wf_tree_prune.
  assert (H2 : filter nonhost (if has_children t1 [s_host ss] then t1 else prune_tree t1 [s_host ss]) = filter nonhost t1).
  { destruct (has_children t1 [s_host ss]) eqn:Hc; [reflexivity|]. apply prune_childless_host; auto. }
  etransitivity; [exact H2|]. unfold t1, prune_tree. apply filter_comm.
Qed.

Lemma detach_body : forall B X t, inv B X ->
  body (sv_tree (detach fx X t)) = view_without (get_session X t) (body (sv_tree X)).
Proof.
  intros B X t I. destruct (get_session X t) as [ss|] eqn:Hs.
  - destruct (detach_shape fx guard_on B X t ss I Hs) as [Ht _]. rewrite Ht. apply body_tree_without. apply (inv_tree _ _ _ I).
  - unfold detach. now rewrite Hs.
Qed.

Lemma view_without_params : forall o o' l, option_map sparams o' = option_map sparams o -> view_without o' l = view_without o l.
Proof.
  intros [a|] [b|] l H; cbn [option_map] in H; try discriminate; [|reflexivity].
  assert (H' : sparams b = sparams a) by congruence. clear H. rename H' into H. apply sparams_parts in H as [H1 [H2 [H3 [H4 _]]]]. unfold view_without.
  assert (Hm : forall n, unmark b n = unmark a n) by (intros n; unfold unmark; now rewrite H1, H4).
  assert (Hf : forall n, off_dir b n = off_dir a n) by (intros n; unfold off_dir, session_dir; now rewrite H2, H3).
  rewrite (filter_ext _ _ Hf). now apply map_ext.
Qed.

Lemma get_session_params : forall X Y t, all_params X = all_params Y ->
  option_map sparams (get_session X t) = option_map sparams (get_session Y t).
Proof.
  intros X Y t H. unfold get_session. pose proof (find_session_params (sv_sessions Y) (sv_sessions X) t H) as Hc.
  destruct (find_session (sv_sessions Y) t), (find_session (sv_sessions X) t); try contradiction; cbn; [now f_equal|reflexivity].
Qed.

Lemma detach_veq : forall B X Y t, inv B X -> inv B Y -> veq X Y -> veq (detach fx X t) (detach fx Y t).
Proof.
  intros B X Y t IX IY [V1 V2]. split.
  - rewrite (detach_body B X t IX), (detach_body B Y t IY), V1. apply view_without_params. now apply get_session_params.
  - rewrite !(detach_params fx). apply (others_params_eq t). exact V2.
Qed.

Lemma get_session_detach_other : forall X a b, a <> b ->
  option_map sparams (get_session (detach fx X a) b) = option_map sparams (get_session X b).
Proof.
  intros X a b Hab. pose proof (detach_params fx X a) as Hp. unfold get_session.
  pose proof (find_session_params (filter (fun x => negb (N.eqb (s_id x) a)) (sv_sessions X)) (sv_sessions (detach fx X a)) b Hp) as Hc.
  rewrite find_session_filter in Hc by exact Hab.
  destruct (find_session (sv_sessions X) b), (find_session (sv_sessions (detach fx X a)) b); try contradiction; cbn; [now f_equal|reflexivity].
Qed.

Lemma unmark_comm : forall sa sb n, s_id sa <> s_id sb -> unmark sa (unmark sb n) = unmark sb (unmark sa n).
Proof.
  intros sa sb n Hab. unfold unmark at 1 3. rewrite !unmark_path. unfold unmark.
  destruct (matches_node (s_subs sa) (n_path n) None 0), (matches_node (s_subs sb) (n_path n) None 0); try reflexivity.
  unfold adj_node. cbn [n_path n_data n_subs]. f_equal. apply tbl_adjust_neg_comm; [congruence|apply cleanup_delta_neg].
Qed.

Lemma view_without_comm : forall oa ob l,
  (forall sa sb, oa = Some sa -> ob = Some sb -> s_id sa <> s_id sb) ->
  view_without oa (view_without ob l) = view_without ob (view_without oa l).
Proof.
  intros [sa|] [sb|] l H; try reflexivity. specialize (H sa sb eq_refl eq_refl). unfold view_without.
  rewrite (filter_map_pres _ (off_dir sa) (unmark sb)) by (intros n; unfold off_dir; now rewrite unmark_path).
  rewrite (filter_map_pres _ (off_dir sb) (unmark sa)) by (intros n; unfold off_dir; now rewrite unmark_path).
  rewrite !map_map, (filter_comm _ (off_dir sa) (off_dir sb)). apply map_ext. intros n. now apply unmark_comm.
Qed.

Lemma detach_comm : forall B X a b, small B -> inv B X -> veq (detach fx (detach fx X a) b) (detach fx (detach fx X b) a).
Proof.
  intros B X a b HB I. destruct (N.eq_dec a b) as [->|Hab]; [apply veq_refl|].
  assert (Ia : inv B (detach fx X a)) by now apply detach_inv. assert (Ib : inv B (detach fx X b)) by now apply detach_inv.
  split.
  - rewrite (detach_body B _ b Ia), (detach_body B _ a Ib), (detach_body B X a I), (detach_body B X b I).
    rewrite (view_without_params (get_session X b) (get_session (detach fx X a) b)) by now apply get_session_detach_other.
    rewrite (view_without_params (get_session X a) (get_session (detach fx X b) a)) by (apply get_session_detach_other; congruence).
    apply view_without_comm. intros sa sb Ha Hb. apply get_session_id in Ha, Hb. congruence.
  - rewrite (detach_params fx (detach fx X a) b), (detach_params fx (detach fx X b) a).
    pose proof (others_params_eq b _ _ (detach_params fx X a)) as H1. pose proof (others_params_eq a _ _ (detach_params fx X b)) as H2.
    unfold others in H1, H2. rewrite H1, H2. f_equal. apply filter_comm.
Qed.

Definition detach_all (l : list sid) (X : server) : server := fold_left (detach fx) l X.

Lemma detach_all_inv : forall B l X, small B -> inv B X -> inv B (detach_all l X).
Proof. intros B l. induction l as [|d l IH]; intros X HB I; cbn; [exact I|]. apply IH; [exact HB|now apply detach_inv]. Qed.

Lemma detach_all_veq : forall B l X Y, small B -> inv B X -> inv B Y -> veq X Y -> veq (detach_all l X) (detach_all l Y).
Proof.
  intros B l. induction l as [|d l IH]; intros X Y HB IX IY V; cbn; [exact V|].
  apply IH; [exact HB|now apply detach_inv|now apply detach_inv|now apply (detach_veq B)].
Qed.

(* the order in which marked sessions are removed does not show *)
Lemma detach_all_perm : forall B l l', Permutation l l' -> forall X, small B -> inv B X -> veq (detach_all l X) (detach_all l' X).
Proof.
  intros B l l' P. induction P as [|x l l' P IH|x y l|l l' l'' P1 IH1 P2 IH2]; intros X HB I.
  - apply veq_refl.
  - cbn. apply IH; [exact HB|now apply detach_inv].
  - cbn. apply (detach_all_veq B); [exact HB|now apply detach_inv, detach_inv|now apply detach_inv, detach_inv|now apply (detach_comm B)].
  - eapply veq_trans; [now apply IH1|now apply IH2].
Qed.

(* ------------------------------------------------------------------ whom a kick traversal marks *)

Lemma sid_mem_spec : forall k l, sid_mem k l = true <-> In k l.
Proof.
  intros k l. induction l as [|x l IH]; cbn [sid_mem In]; [split; [discriminate|tauto]|].
  rewrite orb_true_iff, N.eqb_eq, IH. tauto.
Qed.

Lemma NoDup_app_single : forall (A : Type) (l : list A) a, NoDup l -> ~ In a l -> NoDup (l ++ [a]).
Proof.
  intros A l a H Ha. induction H as [|x l Hx H IH]; cbn; [constructor; [intros []|constructor]|].
  constructor.
  - rewrite in_app_iff. cbn. intros [H1|[H1|[]]]; [contradiction|]. subst. apply Ha. now left.
  - apply IH. intros H1. apply Ha. now right.
Qed.

Definition kick_step (sv : server) (t : sid) (d : list sid) (n : node) : list sid := fst (kick_cb sv t d n).

Lemma kick_cb_cbK : forall sv t d n, kick_cb sv t d n = cbK (list sid) (kick_step sv t) d n.
Proof.
  intros sv t d n. unfold cbK, kick_step, kick_cb. destruct (owner_of sv (n_path n)) as [x|]; [|reflexivity].
  destruct (N.eqb (s_id x) t); [reflexivity|]. destruct (sid_mem (s_id x) d); reflexivity.
Qed.

(* KickClientCallback returns NODE_DEPTH_SESSIONNAME: the traversal skips to the next session node, and what it calls back on
   is Vt of Refl/TraverseExit.v *)
Lemma kick_traversal : forall sv t tr m d,
  do_traversal (kick_cb sv t) tr m [] true true d = fold_left (kick_step sv t) (Vt tr m true true (S (max_clauses m)) []) d.
Proof.
  intros sv t tr m d. unfold do_traversal. cbn [length].
  rewrite (trav_ext tr m 0 true true (list sid) (kick_cb sv t) (cbK (list sid) (kick_step sv t)) (kick_cb_cbK sv t)).
  apply trav_const_depth.
Qed.

Definition kicks (sv : server) (t : sid) (l : list node) (k : sid) : Prop :=
  exists n x, In n l /\ owner_of sv (n_path n) = Some x /\ s_id x = k /\ k <> t.

Lemma kick_fold : forall sv t l d, NoDup d ->
  NoDup (fold_left (kick_step sv t) l d) /\
  forall k, In k (fold_left (kick_step sv t) l d) <-> In k d \/ kicks sv t l k.
Proof.
  intros sv t l. induction l as [|n l IH]; intros d Hd; cbn [fold_left].
  - split; [exact Hd|]. intros k. split; [now left|]. intros [H|[n [x [[] _]]]]. exact H.
  - assert (Hs : NoDup (kick_step sv t d n) /\
                 forall k, In k (kick_step sv t d n) <-> In k d \/ exists x, owner_of sv (n_path n) = Some x /\ s_id x = k /\ k <> t).
    { unfold kick_step, kick_cb. destruct (owner_of sv (n_path n)) as [x|].
      - destruct (N.eqb (s_id x) t) eqn:Et; cbn [fst].
        + apply N.eqb_eq in Et. split; [exact Hd|]. intros k. split; [now left|]. intros [H|[y [Hy [H1 H2]]]]; [exact H|]. congruence.
        + apply N.eqb_neq in Et. destruct (sid_mem (s_id x) d) eqn:Em; cbn [fst].
          * apply sid_mem_spec in Em. split; [exact Hd|]. intros k. split; [now left|]. intros [H|[y [Hy [H1 H2]]]]; [exact H|]. congruence.
          * split.
            -- apply NoDup_app_single; [exact Hd|]. intros Hin. apply sid_mem_spec in Hin. congruence.
            -- intros k. rewrite in_app_iff. cbn [In]. split.
               ++ intros [H|[H|[]]]; [now left|]. right. exists x. subst k. now repeat split.
               ++ intros [H|[y [Hy [H1 H2]]]]; [now left|]. right. left. congruence.
      - cbn [fst]. split; [exact Hd|]. intros k. split; [now left|]. intros [H|[y [Hy _]]]; [exact H|discriminate]. }
    destruct Hs as [Hs1 Hs2]. destruct (IH _ Hs1) as [I1 I2]. split; [exact I1|]. intros k. rewrite I2, Hs2. unfold kicks. split.
    + intros [[H|[x [H1 [H2 H3]]]]|[n' [x [H0 H1]]]]; [now left| |].
      * right. exists n, x. repeat split; auto. now left.
      * right. exists n', x. split; [now right|exact H1].
    + intros [H|[n' [x [[->|H0] [H1 [H2 H3]]]]]]; [now left; left| |].
      * left. right. now exists x.
      * right. exists n', x. now repeat split.
Qed.

Lemma owner_firstn3 : forall sv p q, firstn 3 p = firstn 3 q -> owner_of sv p = owner_of sv q.
Proof.
  intros sv p q H. unfold owner_of.
  assert (Hn : owner_name p = owner_name q).
  { destruct p as [|a [|b [|c p]]], q as [|a' [|b' [|c' q]]]; cbn in H; try discriminate; try reflexivity; inversion H; reflexivity. }
  now rewrite Hn.
Qed.

(* the sessions a PR_COMMAND_KICK of session t with these keys marks *)
Definition kicked (sv : server) (keys : list (spath * option qfilter)) (t : sid) (k : sid) : Prop :=
  exists n x, In n (sv_tree sv) /\ n_path n <> [] /\ matches_node (keys_matcher keys) (n_path n) (Some (n_data n)) 0 = true /\
              owner_of sv (n_path n) = Some x /\ s_id x = k /\ k <> t.

Lemma kick_spec : forall sv keys t d, wf_tree (sv_tree sv) -> NoDup d ->
  let d' := do_traversal (kick_cb sv t) (sv_tree sv) (keys_matcher keys) [] true (fx_guard fx) d in
  NoDup d' /\ forall k, In k d' <-> In k d \/ kicked sv keys t k.
Proof.
  intros sv keys t d W Hd. cbv zeta. rewrite guard_on, kick_traversal.
  set (m := keys_matcher keys). set (fuel := S (max_clauses m)).
  destruct (kick_fold sv t (Vt (sv_tree sv) m true true fuel []) d Hd) as [H1 H2]. split; [exact H1|].
  intros k. rewrite H2.
  assert (HV : V (sv_tree sv) m 0 true true fuel [] = vlist (sv_tree sv) m [] true).
  { rewrite <- visits_vlist. symmetry. apply (visits_V (sv_tree sv) m [] true true). }
  assert (Hw : MatcherProofs.wf_groups (m_groups m)) by apply MatcherProofs.m_of_list_wf.
  split; (intros [H|H]; [now left|right]).
  - destruct H as [n [x [Hn [Ho [Hk Ht]]]]]. apply Vt_incl in Hn. rewrite HV in Hn.
    apply (vlist_spec _ _ _ _ _ W Hw) in Hn as [Hin [[r [Hr Hp]] Hm]]. cbn [app length] in *.
    exists n, x. repeat split; auto. congruence.
  - destruct H as [n [x [Hn [Hne [Hm [Ho [Hk Ht]]]]]]].
    assert (HnV : In n (V (sv_tree sv) m 0 true true fuel [])).
    { rewrite HV. apply (vlist_spec _ _ _ _ _ W Hw). split; [exact Hn|]. split; [|exact Hm]. exists (n_path n). now split. }
    destruct (Vt_covers (sv_tree sv) m true true fuel [] n) as [n' [Hn' Hf]]; [cbn; lia|exact HnV|].
    exists n', x. split; [exact Hn'|]. split; [|now split]. rewrite <- Ho. now apply owner_firstn3.
Qed.

End Kick.

(* ------------------------------------------------------------------ the same sessions are marked with and without s *)

Section KickSim.
Context {M : MatchOps} {L : MatchLaws M}.
Variable fx : fixes.
Hypothesis guard_on : fx_guard fx = true.
Variable s : sid.

(* session names (the id strings of the server) are pairwise different, and none is also the host name of a session *)
Definition names_ok (sv : server) : Prop :=
  NoDup (map (fun c : sid * name * name => snd c) (idents sv)) /\
  forall p q : sid * name * name, In p (idents sv) -> In q (idents sv) -> snd p <> snd (fst q).

Lemma names_ok_idents : forall sv sv', idents sv' = idents sv -> names_ok sv -> names_ok sv'.
Proof. intros sv sv' H. unfold names_ok. now rewrite H. Qed.

Lemma names_nodup : forall sv, names_ok sv -> NoDup (map s_name (sv_sessions sv)).
Proof. intros sv [H _]. unfold idents in H. rewrite map_map in H. exact H. Qed.

Lemma names_host : forall sv x y, names_ok sv -> In x (sv_sessions sv) -> In y (sv_sessions sv) -> s_name x <> s_host y.
Proof.
  intros sv x y [_ H] Hx Hy. apply (H (sident x) (sident y)); unfold idents; now apply in_map.
Qed.

Lemma names_unique : forall l x y, NoDup (map s_name l) -> In x l -> In y l -> s_name x = s_name y -> x = y.
Proof.
  induction l as [|a l IH]; intros x y Hnd Hx Hy Hn; [destruct Hx|]. cbn [map] in Hnd. inversion Hnd as [|? ? Ha Hnd']; subst.
  destruct Hx as [->|Hx], Hy as [->|Hy]; [reflexivity| | |now apply IH].
  - exfalso. apply Ha. rewrite Hn. now apply in_map.
  - exfalso. apply Ha. rewrite <- Hn. now apply in_map.
Qed.

Lemma find_by_name_some : forall l nm x, find_by_name l nm = Some x -> In x l /\ s_name x = nm.
Proof.
  induction l as [|a l IH]; intros nm x H; cbn [find_by_name] in H; [discriminate|].
  destruct (name_eqb (s_name a) nm) eqn:E.
  - inversion H; subst. apply name_eqb_eq in E. split; [now left|exact E].
  - destruct (IH nm x H) as [H1 H2]. split; [now right|exact H2].
Qed.

Lemma find_by_name_in : forall l x, NoDup (map s_name l) -> In x l -> find_by_name l (s_name x) = Some x.
Proof.
  induction l as [|a l IH]; intros x Hnd Hx; [destruct Hx|]. cbn [find_by_name].
  destruct (name_eqb (s_name a) (s_name x)) eqn:E.
  - apply name_eqb_eq in E. f_equal. apply (names_unique (a :: l)); [exact Hnd|now left|exact Hx|exact E].
  - destruct Hx as [->|Hx]; [now rewrite name_eqb_refl in E|]. apply IH; [|exact Hx]. cbn [map] in Hnd. now inversion Hnd.
Qed.

Lemma find_by_name_params : forall l l' nm, map sparams l' = map sparams l ->
  option_map sparams (find_by_name l' nm) = option_map sparams (find_by_name l nm).
Proof.
  induction l as [|x l IH]; intros [|y l'] nm H; try discriminate; [reflexivity|].
  apply map_sparams_cons in H as [H1 H2]. pose proof (sparams_parts _ _ H1) as [_ [_ [Hn _]]]. cbn [find_by_name]. rewrite Hn.
  destruct (name_eqb (s_name x) nm); [cbn; now f_equal|now apply IH].
Qed.

Lemma find_by_name_others : forall l nm x, find_by_name l nm = Some x -> s_id x <> s -> find_by_name (others s l) nm = Some x.
Proof.
  induction l as [|a l IH]; intros nm x H Hx; cbn [find_by_name] in H; [discriminate|]. unfold others. cbn [filter].
  destruct (name_eqb (s_name a) nm) eqn:E.
  - inversion H; subst. assert (N.eqb (s_id x) s = false) as -> by now apply N.eqb_neq. cbn [negb find_by_name]. now rewrite E.
  - destruct (negb (N.eqb (s_id a) s)); [cbn [find_by_name]; rewrite E|]; now apply IH.
Qed.

(* a host node does not lead to a session *)
Lemma host_node_no_owner : forall sv n h, hosts_ok sv -> names_ok sv -> In n (sv_tree sv) -> n_path n = [h] -> owner_of sv (n_path n) = None.
Proof.
  intros sv n h HO NO Hn Hp. rewrite Hp. unfold owner_of. cbn [owner_name].
  destruct (find_by_name (sv_sessions sv) h) as [x|] eqn:E; [|reflexivity]. exfalso.
  apply find_by_name_some in E as [Hx Hnm]. destruct (HO n Hn) as [_ [y [Hy Hh]]]; [now rewrite Hp|].
  rewrite Hp in Hh. injection Hh as Hh. apply (names_host sv x y NO Hx Hy). congruence.
Qed.

Lemma NoDup_map_filter : forall (A B : Type) (f : A -> B) (p : A -> bool) l, NoDup (map f l) -> NoDup (map f (filter p l)).
Proof.
  intros A B f p l. induction l as [|a l IH]; intros H; [constructor|]. cbn [map filter] in *.
  inversion H as [|? ? Ha Hnd]; subst. destruct (p a); [|now apply IH]. cbn [map]. constructor; [|now apply IH].
  intros Hin. apply Ha. apply in_map_iff in Hin as [b [Hb1 Hb2]]. apply filter_In in Hb2 as [Hb2 _]. apply in_map_iff. now exists b.
Qed.

Lemma names_ok_erased : forall F E, rel_sess s F E -> names_ok F -> names_ok E.
Proof.
  intros F E R NO.
  assert (Hi : idents E = map sident (others s (sv_sessions F))).
  { unfold rel_sess, all_params in R. unfold idents.
    assert (Hm : forall l : list session, map sident l = map (fun c : sid * name * name * matcher * N => fst (fst c)) (map sparams l))
      by (intros l; rewrite map_map; reflexivity).
    now rewrite (Hm (sv_sessions E)), R, <- Hm. }
  unfold names_ok. rewrite Hi. destruct NO as [N1 N2]. unfold idents in N1, N2. split.
  - rewrite map_map in *. unfold others. now apply NoDup_map_filter.
  - intros p q Hp Hq. apply N2.
    + apply in_map_iff in Hp as [a [Ha1 Ha2]]. apply filter_In in Ha2 as [Ha2 _]. apply in_map_iff. now exists a.
    + apply in_map_iff in Hq as [a [Ha1 Ha2]]. apply filter_In in Ha2 as [Ha2 _]. apply in_map_iff. now exists a.
Qed.

Lemma kicked_sim : forall F E keys t k, rel s F E -> hosts_ok F -> hosts_ok E -> names_ok F -> k <> s ->
  (kicked F keys t k <-> kicked E keys t k).
Proof.
  intros F E keys t k [R1 R2] HF HE NF Hk. pose proof (names_ok_erased F E R2 NF) as NE. unfold rel_tree in R1.
  split; intros [n [x [Hn [Hne [Hm [Ho [Hid Ht]]]]]]].
  - destruct (n_path n) as [|h [|sn r]] eqn:Hp; [congruence| |].
    + rewrite <- Hp, (host_node_no_owner F n h HF NF Hn Hp) in Ho. discriminate.
    + unfold owner_of in Ho. cbn [owner_name] in Ho. pose proof (find_by_name_some _ _ _ Ho) as [Hx Hnm].
      assert (Hv : vis (sdir s F) n = true).
      { unfold vis, nonhost. rewrite Hp. cbn [length Nat.leb andb]. apply negb_true_iff. unfold sdir.
        destruct (get_session F s) as [ss|] eqn:Hs; [|reflexivity]. cbn [option_map hidden].
        destruct (is_prefix (session_dir ss) (h :: sn :: r)) eqn:E0; [|reflexivity]. exfalso.
        apply is_prefix_spec in E0 as [r' Hr']. unfold session_dir in Hr'. cbn [app] in Hr'. injection Hr' as _ Hsn _.
        apply find_session_some in Hs as [Hss Hsid].
        assert (x = ss) by (apply (names_unique (sv_sessions F)); [now apply names_nodup|exact Hx|exact Hss|congruence]). congruence. }
      assert (Hin : In (strip s n) (body (sv_tree E))) by (rewrite R1; apply in_map, filter_In; now split).
      unfold body in Hin. apply filter_In in Hin as [Hin _].
      pose proof (find_by_name_others _ _ _ Ho (ltac:(congruence) : s_id x <> s)) as Ho'.
      pose proof (find_by_name_params (others s (sv_sessions F)) (sv_sessions E) sn R2) as Hq. rewrite Ho' in Hq.
      destruct (find_by_name (sv_sessions E) sn) as [x'|] eqn:Ex; [|discriminate]. cbn [option_map] in Hq.
      assert (Hq' : sparams x' = sparams x) by congruence. apply sparams_parts in Hq' as [Hq' _].
      exists (strip s n), x'. unfold strip at 2 3 4 5. cbn [n_path n_data]. rewrite Hp. repeat split; auto; try congruence.
  - destruct (n_path n) as [|h [|sn r]] eqn:Hp; [congruence| |].
    + rewrite <- Hp, (host_node_no_owner E n h HE NE Hn Hp) in Ho. discriminate.
    + unfold owner_of in Ho. cbn [owner_name] in Ho.
      assert (Hb : In n (body (sv_tree E))) by (apply filter_In; split; [exact Hn|unfold nonhost; now rewrite Hp]).
      rewrite R1 in Hb. apply in_map_iff in Hb as [n0 [Hs0 Hn0]]. apply filter_In in Hn0 as [Hn0 _].
      pose proof (find_by_name_params (others s (sv_sessions F)) (sv_sessions E) sn R2) as Hq. rewrite Ho in Hq.
      destruct (find_by_name (others s (sv_sessions F)) sn) as [x0|] eqn:Ex; [|discriminate]. cbn [option_map] in Hq.
      assert (Hq' : sparams x = sparams x0) by congruence. apply sparams_parts in Hq' as [Hq' _].
      apply find_by_name_some in Ex as [Hx0 Hnm]. unfold others in Hx0. apply filter_In in Hx0 as [Hx0 _].
      assert (Hpn : n_path n0 = h :: sn :: r) by (rewrite <- Hp, <- Hs0; reflexivity).
      assert (Hdn : n_data n0 = n_data n) by (rewrite <- Hs0; reflexivity).
      exists n0, x0. rewrite Hpn, Hdn. repeat split; auto; try congruence.
      unfold owner_of. cbn [owner_name]. rewrite <- Hnm. apply find_by_name_in; [now apply names_nodup|exact Hx0].
Qed.

(* the sessions marked for removal on the two sides: the same ones, s apart *)
Definition duck_rel (dF dE : list sid) : Prop := NoDup dF /\ NoDup dE /\ forall k, In k dE <-> In k dF /\ k <> s.

Lemma duck_rel_nil : duck_rel [] [].
Proof. split; [constructor|]. split; [constructor|]. intros k. cbn. tauto. Qed.

Lemma kick_ducks_sim : forall B F E keys t dF dE, inv B F -> inv B E -> rel s F E -> hosts_ok F -> hosts_ok E -> names_ok F ->
  duck_rel dF dE ->
  duck_rel (do_traversal (kick_cb F t) (sv_tree F) (keys_matcher keys) [] true (fx_guard fx) dF)
           (do_traversal (kick_cb E t) (sv_tree E) (keys_matcher keys) [] true (fx_guard fx) dE).
Proof.
  intros B F E keys t dF dE IF IE R HF HE NF [D1 [D2 D3]].
  destruct (kick_spec fx guard_on F keys t dF (inv_tree _ _ _ IF) D1) as [F1 F2].
  destruct (kick_spec fx guard_on E keys t dE (inv_tree _ _ _ IE) D2) as [E1 E2].
  split; [exact F1|]. split; [exact E1|]. intros k. rewrite E2, F2, D3. split.
  - intros [[H1 H2]|H]; [tauto|].
    assert (Hk : k <> s).
    { intros ->. destruct H as [n [x [Hn [Hne [Hm [Ho [Hid Ht]]]]]]].
      destruct (n_path n) as [|h [|sn r]] eqn:Hp; [congruence| |]; unfold owner_of in Ho; cbn [owner_name] in Ho;
        apply find_by_name_some in Ho as [Hx _]; destruct R as [_ R2]; unfold rel_sess, all_params in R2;
        assert (Hi : In (sparams x) (map sparams (others s (sv_sessions F)))) by (rewrite <- R2; now apply in_map);
        apply in_map_iff in Hi as [y [Hy1 Hy2]]; apply filter_In in Hy2 as [_ Hy2]; apply sparams_parts in Hy1 as [Hy1 _];
        apply negb_true_iff, N.eqb_neq in Hy2; congruence. }
    split; [|exact Hk]. right. now apply (kicked_sim F E keys t k R HF HE NF Hk).
  - intros [[H|H] Hk]; [tauto|]. right. now apply (kicked_sim F E keys t k R HF HE NF Hk).
Qed.

(* ------------------------------------------------------------------ ClearLameDucks on both sides *)

Lemma detach_all_sim : forall B l F E, small B -> inv B F -> inv B E -> rel s F E ->
  rel s (detach_all fx l F) (detach_all fx (filter (fun d => negb (N.eqb d s)) l) E).
Proof.
  intros B l. induction l as [|d l IH]; intros F E HB IF IE R; cbn [detach_all fold_left filter]; [exact R|].
  destruct (N.eqb d s) eqn:Ed; cbn [negb].
  - apply N.eqb_eq in Ed. subst d. apply IH; [exact HB|now apply detach_inv|exact IE|].
    destruct (get_session F s) as [ss|] eqn:Hs; [now apply (detach_self fx guard_on s B F E ss)|]. unfold detach. now rewrite Hs.
  - apply N.eqb_neq in Ed. cbn [fold_left]. apply IH; [exact HB|now apply detach_inv|now apply detach_inv|].
    now apply (detach_sim fx guard_on s B).
Qed.

Lemma sid_mem_iff : forall k l l', (In k l <-> In k l') -> sid_mem k l = sid_mem k l'.
Proof.
  intros k l l' H. destruct (sid_mem k l) eqn:A, (sid_mem k l') eqn:B; try reflexivity.
  - apply sid_mem_spec, H, sid_mem_spec in A. congruence.
  - apply sid_mem_spec, H, sid_mem_spec in B. congruence.
Qed.

Lemma ducks_perm : forall dF dE, duck_rel dF dE -> Permutation (filter (fun d => negb (N.eqb d s)) dF) dE.
Proof.
  intros dF dE [D1 [D2 D3]]. apply NoDup_Permutation; [now apply NoDup_filter|exact D2|].
  intros k. rewrite D3, filter_In, negb_true_iff, N.eqb_neq. tauto.
Qed.

Lemma sv_fold_xdetach : forall l xs, xs_sv (fold_left (fun xs' d => xdetach fx xs' d) l xs) = detach_all fx l (xs_sv xs).
Proof. induction l as [|d l IH]; intros xs; cbn [fold_left detach_all]; [reflexivity|]. now rewrite IH. Qed.

Lemma priv_fold_xdetach : forall l xs,
  xs_priv (fold_left (fun xs' d => xdetach fx xs' d) l xs) = filter (fun kb => negb (sid_mem (fst kb) l)) (xs_priv xs).
Proof.
  induction l as [|d l IH]; intros xs; cbn [fold_left].
  - cbn [sid_mem negb]. induction (xs_priv xs) as [|a r IHr]; [reflexivity|]. cbn [filter]. now rewrite <- IHr.
  - rewrite IH. cbn [xs_priv xdetach]. unfold priv_remove. rewrite <- filter_andb. apply filter_ext.
    intros kb. cbn [sid_mem]. rewrite (N.eqb_sym d (fst kb)). rewrite negb_orb. apply andb_comm.
Qed.

Lemma clear_ducks_sim : forall B XF XE, small B -> inv B (xs_sv XF) -> inv B (xs_sv XE) ->
  rel s (xs_sv XF) (xs_sv XE) -> priv_remove (xs_priv XF) s = xs_priv XE -> duck_rel (xs_ducks XF) (xs_ducks XE) ->
  rel s (xs_sv (clear_ducks fx XF)) (xs_sv (clear_ducks fx XE)) /\
  priv_remove (xs_priv (clear_ducks fx XF)) s = xs_priv (clear_ducks fx XE).
Proof.
  intros B XF XE HB IF IE R P D. unfold clear_ducks. split.
  - rewrite !sv_fold_xdetach. eapply rel_veq; [apply (detach_all_sim B); eassumption|].
    apply (detach_all_perm fx guard_on B); [now apply ducks_perm|exact HB|exact IE].
  - rewrite !priv_fold_xdetach, <- P. unfold priv_remove. rewrite (filter_comm _ _ (fun kb => negb (N.eqb (fst kb) s))).
    rewrite <- !filter_andb. apply filter_ext. intros kb. destruct (N.eqb (fst kb) s) eqn:Es; cbn [negb andb]; [reflexivity|].
    f_equal. apply N.eqb_neq in Es. apply sid_mem_iff. destruct D as [_ [_ D3]]. rewrite D3. tauto.
Qed.

End KickSim.
