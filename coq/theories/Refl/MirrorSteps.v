(* Refl/MirrorSteps.v -- the subscriber invariant J is preserved by the node-changing handlers:
   SetDataNode, RemoveChild (recursive), DoRemoveData, and the node part of a session's arrival / departure. *)
From Coq Require Import List NArith ZArith Bool Arith Lia.
From Muscle Require Import Refl.Base Refl.BaseProofs Refl.Tree Refl.TreeProofs Refl.Matcher Refl.MatcherProofs
     Refl.Traverse Refl.TraverseFold Refl.Session Refl.Server Refl.ServerProofs Refl.Mirror Refl.MirrorBase Refl.MirrorServer
     Refl.MirrorNotify Refl.MirrorSem.
Import ListNotations.

Section Steps.
Context {M : MatchOps} {L : MatchLaws M}.
Variable fx : fixes.
Hypothesis guard_on : fx_guard fx = true.
Variable mir : mirror.

Notation J := (J mir).
Notation V := (V mir).

(* ------------------------------------------------------------------ bookkeeping *)

(* the sessions keep their ids, directories and subscriptions (the tree may change) *)
Definition same_sess (sv sv' : server) : Prop := map core (sv_sessions sv') = map core (sv_sessions sv).

Lemma same_core_sess : forall sv sv', same_core sv sv' -> same_sess sv sv'.
Proof. intros sv sv' [_ H]. exact H. Qed.

Lemma same_sess_trans : forall a b c, same_sess a b -> same_sess b c -> same_sess a c.
Proof. unfold same_sess. intros a b c H1 H2. congruence. Qed.

Lemma same_sess_set_tree : forall sv t, same_sess sv (set_tree sv t).
Proof. reflexivity. Qed.

Lemma get_session_sess : forall sv sv' o ss', same_sess sv sv' -> get_session sv' o = Some ss' ->
  exists ss, get_session sv o = Some ss /\ s_subs ss = s_subs ss' /\ session_dir ss = session_dir ss'.
Proof.
  intros sv sv' o ss' Hc Hss'. pose proof (find_session_core (sv_sessions sv) (sv_sessions sv') o Hc) as H.
  unfold get_session in *. rewrite Hss' in H.
  destruct (find_session (sv_sessions sv) o) as [ss|]; [|contradiction]. exists ss. unfold core in H. unfold session_dir.
  split; [auto|split]; congruence.
Qed.

Lemma get_session_sess_fwd : forall sv sv' o ss, same_sess sv sv' -> get_session sv o = Some ss ->
  exists ss', get_session sv' o = Some ss' /\ s_subs ss' = s_subs ss /\ session_dir ss' = session_dir ss.
Proof.
  intros sv sv' o ss Hc Hss. pose proof (find_session_core (sv_sessions sv) (sv_sessions sv') o Hc) as H.
  unfold get_session in *. rewrite Hss in H.
  destruct (find_session (sv_sessions sv') o) as [ss'|]; [|contradiction]. exists ss'. unfold core in H. unfold session_dir.
  split; [auto|split]; congruence.
Qed.

Lemma own_path_dir : forall (a b : session) q, session_dir a = session_dir b -> own_path a q = own_path b q.
Proof. intros a b q H. unfold own_path. now rewrite H. Qed.

Lemma expected_subs : forall t (a b : session) q, s_subs a = s_subs b -> expected t a q = expected t b q.
Proof. intros t a b q H. unfold expected. now rewrite H. Qed.

(* to establish J after a step that keeps the sessions' cores: argue with the session record of the pre-state *)
Lemma J_intro : forall sv sv' o, same_sess sv sv' ->
  (forall ss, get_session sv o = Some ss -> forall q, own_path ss q = false ->
              V sv' o q = Some (expected (sv_tree sv') ss q)) ->
  J sv' o.
Proof.
  intros sv sv' o Hc H ss' Hss' q Hown.
  destruct (get_session_sess sv sv' o ss' Hc Hss') as [ss [Hss [Hsub Hdir]]].
  rewrite (H ss Hss q); [|now rewrite (own_path_dir ss ss' q Hdir)].
  now rewrite (expected_subs _ ss ss' q Hsub).
Qed.

Lemma J_same : forall sv sv' o, same_core sv sv' -> (forall q, V sv' o q = V sv o q) -> J sv o -> J sv' o.
Proof.
  intros sv sv' o Hc HV HJ. apply (J_intro sv sv' o (same_core_sess _ _ Hc)). intros ss Hss q Hown.
  rewrite HV, (HJ ss Hss q Hown). destruct Hc as [Ht _]. now rewrite Ht.
Qed.

Lemma J_push_all : forall sv o, J sv o -> J (push_all sv) o.
Proof. intros sv o H. apply (J_same sv); auto; [apply push_all_core|]. intros q. apply V_push_all. Qed.

Lemma find_node_remove : forall t p q, find_node (remove_node t p) q = if path_eqb p q then None else find_node t q.
Proof.
  intros t p q. unfold remove_node. induction t as [|x t IH]; cbn [filter find_node].
  - destruct (path_eqb p q); reflexivity.
  - destruct (path_eqb (n_path x) p) eqn:E; cbn [negb find_node].
    + apply path_eqb_eq in E. rewrite IH, E. destruct (path_eqb p q); reflexivity.
    + rewrite IH. destruct (path_eqb (n_path x) q) eqn:E'; auto.
      apply path_eqb_eq in E'. rewrite <- E'. rewrite path_eqb_sym, E. reflexivity.
Qed.

Lemma marks_ok_core : forall sv sv', same_core sv sv' -> marks_ok sv -> marks_ok sv'.
Proof.
  intros sv sv' Hc [H1 H2]. pose proof Hc as [Ht Hs]. split.
  - intros n Hn. rewrite Ht in Hn. destruct (H1 n Hn) as [Ha Hb]. split; auto.
    intros s. rewrite Hb. symmetry. now apply count_for_core.
  - intros ss' Hin. destruct (in_map_core _ _ ss' Hs Hin) as [ss [Hin0 Hcore]].
    assert (s_subs ss' = s_subs ss) by (unfold core in Hcore; congruence). rewrite H. now apply H2.
Qed.

Lemma marks_ok_remove : forall sv p, marks_ok sv -> marks_ok (set_tree sv (remove_node (sv_tree sv) p)).
Proof.
  intros sv p [H1 H2]. split; auto. intros n Hn. cbn [sv_tree set_tree] in Hn.
  unfold remove_node in Hn. apply filter_In in Hn as [Hn _]. exact (H1 n Hn).
Qed.

(* ------------------------------------------------------------------ one node set or created, with its notice *)

Lemma micro_set_J : forall sv t1 by_ p n o,
  marks_ok (set_tree sv t1) -> pend_ok sv ->
  find_node t1 p = Some n ->
  (forall q, q <> p -> find_node t1 q = find_node (sv_tree sv) q) ->
  (o <> by_ \/ (forall ss, get_session sv o = Some ss -> own_path ss p = true)) ->
  J sv o ->
  J (notify_changed (set_tree sv t1) by_ p (n_data n) (option_map n_data (find_node (sv_tree sv) p)) false) o.
Proof.
  intros sv t1 by_ p n o Hmk Hpo Hf Hother Hwho HJ.
  set (sv1 := set_tree sv t1) in *.
  set (old := option_map n_data (find_node (sv_tree sv) p)).
  assert (Hc1 : same_core sv1 (notify_changed sv1 by_ p (n_data n) old false)) by apply notify_changed_core.
  apply (J_intro sv); [apply (same_sess_trans sv sv1); [reflexivity|now apply same_core_sess]|].
  intros ss Hss q Hown.
  assert (Hss1 : get_session sv1 o = Some ss) by exact Hss.
  destruct Hc1 as [Ht1 _]. rewrite Ht1. cbn [sv_tree sv1 set_tree].
  assert (Hpo1 : pend_ok sv1) by exact Hpo.
  assert (Hf1 : find_node (sv_tree sv1) p = Some n) by exact Hf.
  destruct (path_eqb p q) eqn:Epq.
  - apply path_eqb_eq in Epq. subst q.
    assert (Hne : o <> by_).
    { destruct Hwho as [H|H]; auto. rewrite (H ss Hss) in Hown. discriminate. }
    rewrite (notify_set_V mir sv1 Hmk Hpo1 by_ p n Hf1 (n_data n) old o ss Hne Hss1).
    + unfold expected. now rewrite Hf.
    + change (V sv1 o p) with (V sv o p). rewrite (HJ ss Hss p Hown). now rewrite expected_exp_with.
  - apply path_eqb_neq in Epq.
    assert (Hq : q <> p) by congruence.
    rewrite (notify_other_path mir sv1 Hmk Hpo1 by_ p n Hf1 (n_data n) old false o q ss Hss1 Hq).
    change (V sv1 o q) with (V sv o q). rewrite (HJ ss Hss q Hown).
    unfold expected. now rewrite (Hother q Hq).
Qed.

(* one node removed, with its notice *)
Lemma micro_remove_J : forall sv by_ p n o,
  marks_ok sv -> pend_ok sv -> find_node (sv_tree sv) p = Some n ->
  (o <> by_ \/ (forall ss, get_session sv o = Some ss -> own_path ss p = true)) ->
  J sv o ->
  J (set_tree (notify_changed sv by_ p (n_data n) (Some (n_data n)) true)
              (remove_node (sv_tree (notify_changed sv by_ p (n_data n) (Some (n_data n)) true)) p)) o.
Proof.
  intros sv by_ p n o Hmk Hpo Hf Hwho HJ.
  set (sv1 := notify_changed sv by_ p (n_data n) (Some (n_data n)) true).
  assert (Hc1 : same_core sv sv1) by apply notify_changed_core.
  apply (J_intro sv); [apply (same_sess_trans sv sv1); [now apply same_core_sess|reflexivity]|].
  intros ss Hss q Hown. rewrite V_set_tree. cbn [sv_tree set_tree].
  destruct Hc1 as [Ht1 _]. rewrite Ht1.
  destruct (path_eqb p q) eqn:Epq.
  - apply path_eqb_eq in Epq. subst q.
    assert (Hne : o <> by_).
    { destruct Hwho as [H|H]; auto. rewrite (H ss Hss) in Hown. discriminate. }
    unfold sv1. rewrite (notify_removed_V mir sv Hmk Hpo by_ p n Hf (n_data n) o ss Hne Hss).
    + unfold expected. now rewrite find_node_remove, path_eqb_refl.
    + rewrite (HJ ss Hss p Hown). rewrite expected_exp_with, Hf. reflexivity.
  - pose proof Epq as Epq'. apply path_eqb_neq in Epq.
    assert (Hq : q <> p) by congruence.
    unfold sv1. rewrite (notify_other_path mir sv Hmk Hpo by_ p n Hf (n_data n) (Some (n_data n)) true o q ss Hss Hq).
    rewrite (HJ ss Hss q Hown). unfold expected. now rewrite find_node_remove, Epq'.
Qed.

End Steps.
