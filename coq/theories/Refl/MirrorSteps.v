(* Refl/MirrorSteps.v -- the subscriber invariant J is preserved by the node-changing handlers:
   SetDataNode, RemoveChild (recursive), DoRemoveData, and the node part of a session's arrival / departure. *)
From Coq Require Import List NArith ZArith Bool Arith Lia.
From Muscle Require Import Refl.Base Refl.BaseProofs Refl.Tree Refl.TreeProofs Refl.Matcher Refl.MatcherProofs
     Refl.Traverse Refl.TraverseFold Refl.Session Refl.Server Refl.ServerProofs Refl.Mirror Refl.MirrorBase Refl.MirrorServer
     Refl.MirrorNotify Refl.MirrorSem.
Import ListNotations.

Section Steps.
Context {M : MatchOps} {L : MatchLaws M}.
Variable fx : fixes.
Hypothesis guard_on : fx_guard fx = true.
Variable mir : mirror.

Notation J := (J mir).
Notation V := (V mir).

(* ------------------------------------------------------------------ bookkeeping *)

(* the sessions keep their ids, directories and subscriptions (the tree may change) *)
Definition same_sess (sv sv' : server) : Prop := map core (sv_sessions sv') = map core (sv_sessions sv).

Lemma same_core_sess : forall sv sv', same_core sv sv' -> same_sess sv sv'.
Proof. intros sv sv' [_ H]. exact H. Qed.

Lemma same_sess_trans : forall a b c, same_sess a b -> same_sess b c -> same_sess a c.
Proof. unfold same_sess. intros a b c H1 H2. congruence. Qed.

Lemma same_sess_set_tree : forall sv t, same_sess sv (set_tree sv t).
Proof. reflexivity. Qed.

Lemma get_session_sess : forall sv sv' o ss', same_sess sv sv' -> get_session sv' o = Some ss' ->
  exists ss, get_session sv o = Some ss /\ s_subs ss = s_subs ss' /\ session_dir ss = session_dir ss'.
Proof.
  intros sv sv' o ss' Hc Hss'. pose proof (find_session_core (sv_sessions sv) (sv_sessions sv') o Hc) as H.
  unfold get_session in *. rewrite Hss' in H.
  destruct (find_session (sv_sessions sv) o) as [ss|]; [|contradiction]. exists ss. unfold core in H. unfold session_dir.
  split; [auto|split]; congruence.
Qed.

Lemma own_node_dir : forall (a b : session) q, session_dir a = session_dir b -> own_node a q = own_node b q.
Proof.
  intros a b q H. unfold session_dir in H. assert (s_name a = s_name b) by congruence.
  unfold own_node. now rewrite H0.
Qed.

Lemma get_session_sess_fwd : forall sv sv' o ss, same_sess sv sv' -> get_session sv o = Some ss ->
  exists ss', get_session sv' o = Some ss' /\ s_subs ss' = s_subs ss /\ session_dir ss' = session_dir ss.
Proof.
  intros sv sv' o ss Hc Hss. pose proof (find_session_core (sv_sessions sv) (sv_sessions sv') o Hc) as H.
  unfold get_session in *. rewrite Hss in H.
  destruct (find_session (sv_sessions sv') o) as [ss'|]; [|contradiction]. exists ss'. unfold core in H. unfold session_dir.
  split; [auto|split]; congruence.
Qed.

Lemma own_path_dir : forall (a b : session) q, session_dir a = session_dir b -> own_path a q = own_path b q.
Proof. intros a b q H. unfold own_path. now rewrite H. Qed.

Lemma expected_subs : forall t (a b : session) q, s_subs a = s_subs b -> expected t a q = expected t b q.
Proof. intros t a b q H. unfold expected. now rewrite H. Qed.

(* to establish J after a step that keeps the sessions' cores: argue with the session record of the pre-state *)
Lemma J_intro : forall sv sv' o, same_sess sv sv' ->
  (forall ss, get_session sv o = Some ss -> forall q, own_node ss q = false ->
              V sv' o q = Some (expected (sv_tree sv') ss q)) ->
  J sv' o.
Proof.
  intros sv sv' o Hc H ss' Hss' q Hown.
  destruct (get_session_sess sv sv' o ss' Hc Hss') as [ss [Hss [Hsub Hdir]]].
  rewrite (H ss Hss q); [|now rewrite (own_node_dir ss ss' q Hdir)].
  now rewrite (expected_subs _ ss ss' q Hsub).
Qed.

Lemma J_same : forall sv sv' o, same_core sv sv' -> (forall q, V sv' o q = V sv o q) -> J sv o -> J sv' o.
Proof.
  intros sv sv' o Hc HV HJ. apply (J_intro sv sv' o (same_core_sess _ _ Hc)). intros ss Hss q Hown.
  rewrite HV, (HJ ss Hss q Hown). destruct Hc as [Ht _]. now rewrite Ht.
Qed.

Lemma J_push_all : forall sv o, J sv o -> J (push_all sv) o.
Proof. intros sv o H. apply (J_same sv); auto; [apply push_all_core|]. intros q. apply V_push_all. Qed.

Lemma find_node_remove : forall t p q, find_node (remove_node t p) q = if path_eqb p q then None else find_node t q.
Proof.
  intros t p q. unfold remove_node. induction t as [|x t IH]; cbn [filter find_node].
  - destruct (path_eqb p q); reflexivity.
  - destruct (path_eqb (n_path x) p) eqn:E; cbn [negb find_node].
    + apply path_eqb_eq in E. rewrite IH, E. destruct (path_eqb p q); reflexivity.
    + rewrite IH. destruct (path_eqb (n_path x) q) eqn:E'; auto.
      apply path_eqb_eq in E'. rewrite <- E'. rewrite path_eqb_sym, E. reflexivity.
Qed.

Lemma marks_ok_core : forall sv sv', same_core sv sv' -> marks_ok sv -> marks_ok sv'.
Proof.
  intros sv sv' Hc [H1 H2]. pose proof Hc as [Ht Hs]. split.
  - intros n Hn. rewrite Ht in Hn. destruct (H1 n Hn) as [Ha Hb]. split; auto.
    intros s. rewrite Hb. symmetry. now apply count_for_core.
  - intros ss' Hin. destruct (in_map_core _ _ ss' Hs Hin) as [ss [Hin0 Hcore]].
    assert (s_subs ss' = s_subs ss) by (unfold core in Hcore; congruence). rewrite H. now apply H2.
Qed.

Lemma marks_ok_remove : forall sv p, marks_ok sv -> marks_ok (set_tree sv (remove_node (sv_tree sv) p)).
Proof.
  intros sv p [H1 H2]. split; auto. intros n Hn. cbn [sv_tree set_tree] in Hn.
  unfold remove_node in Hn. apply filter_In in Hn as [Hn _]. exact (H1 n Hn).
Qed.

(* ------------------------------------------------------------------ one node set or created, with its notice *)

Lemma micro_set_J : forall sv t1 by_ p n o,
  marks_ok (set_tree sv t1) -> pend_ok sv ->
  find_node t1 p = Some n ->
  (forall q, q <> p -> find_node t1 q = find_node (sv_tree sv) q) ->
  (o <> by_ \/ (forall ss, get_session sv o = Some ss -> own_node ss p = true)) ->
  J sv o ->
  J (notify_changed (set_tree sv t1) by_ p (n_data n) (option_map n_data (find_node (sv_tree sv) p)) false) o.
Proof.
  intros sv t1 by_ p n o Hmk Hpo Hf Hother Hwho HJ.
  set (sv1 := set_tree sv t1) in *.
  set (old := option_map n_data (find_node (sv_tree sv) p)).
  assert (Hc1 : same_core sv1 (notify_changed sv1 by_ p (n_data n) old false)) by apply notify_changed_core.
  apply (J_intro sv); [apply (same_sess_trans sv sv1); [reflexivity|now apply same_core_sess]|].
  intros ss Hss q Hown.
  assert (Hss1 : get_session sv1 o = Some ss) by exact Hss.
  destruct Hc1 as [Ht1 _]. rewrite Ht1. cbn [sv_tree sv1 set_tree].
  assert (Hpo1 : pend_ok sv1) by exact Hpo.
  assert (Hf1 : find_node (sv_tree sv1) p = Some n) by exact Hf.
  destruct (path_eqb p q) eqn:Epq.
  - apply path_eqb_eq in Epq. subst q.
    assert (Hne : o <> by_).
    { destruct Hwho as [H|H]; auto. rewrite (H ss Hss) in Hown. discriminate. }
    rewrite (notify_set_V mir sv1 Hmk Hpo1 by_ p n Hf1 (n_data n) old o ss Hne Hss1).
    + unfold expected. now rewrite Hf.
    + change (V sv1 o p) with (V sv o p). rewrite (HJ ss Hss p Hown). now rewrite expected_exp_with.
  - apply path_eqb_neq in Epq.
    assert (Hq : q <> p) by congruence.
    rewrite (notify_other_path mir sv1 Hmk Hpo1 by_ p n Hf1 (n_data n) old false o q ss Hss1 Hq).
    change (V sv1 o q) with (V sv o q). rewrite (HJ ss Hss q Hown).
    unfold expected. now rewrite (Hother q Hq).
Qed.

(* one node removed, with its notice *)
Lemma micro_remove_J : forall sv by_ p n o,
  marks_ok sv -> pend_ok sv -> find_node (sv_tree sv) p = Some n ->
  (o <> by_ \/ (forall ss, get_session sv o = Some ss -> own_node ss p = true)) ->
  J sv o ->
  J (set_tree (notify_changed sv by_ p (n_data n) (Some (n_data n)) true)
              (remove_node (sv_tree (notify_changed sv by_ p (n_data n) (Some (n_data n)) true)) p)) o.
Proof.
  intros sv by_ p n o Hmk Hpo Hf Hwho HJ.
  set (sv1 := notify_changed sv by_ p (n_data n) (Some (n_data n)) true).
  assert (Hc1 : same_core sv sv1) by apply notify_changed_core.
  apply (J_intro sv); [apply (same_sess_trans sv sv1); [now apply same_core_sess|reflexivity]|].
  intros ss Hss q Hown. rewrite V_set_tree. cbn [sv_tree set_tree].
  destruct Hc1 as [Ht1 _]. rewrite Ht1.
  destruct (path_eqb p q) eqn:Epq.
  - apply path_eqb_eq in Epq. subst q.
    assert (Hne : o <> by_).
    { destruct Hwho as [H|H]; auto. rewrite (H ss Hss) in Hown. discriminate. }
    unfold sv1. rewrite (notify_removed_V mir sv Hmk Hpo by_ p n Hf (n_data n) o ss Hne Hss).
    + unfold expected. now rewrite find_node_remove, path_eqb_refl.
    + rewrite (HJ ss Hss p Hown). rewrite expected_exp_with, Hf. reflexivity.
  - pose proof Epq as Epq'. apply path_eqb_neq in Epq.
    assert (Hq : q <> p) by congruence.
    unfold sv1. rewrite (notify_other_path mir sv Hmk Hpo by_ p n Hf (n_data n) (Some (n_data n)) true o q ss Hss Hq).
    rewrite (HJ ss Hss q Hown). unfold expected. now rewrite find_node_remove, Epq'.
Qed.


(* ------------------------------------------------------------------ SetDataNode *)

Lemma find_node_add : forall t nd q,
  find_node (add_node t nd) q = match find_node t q with
                                | Some x => Some x
                                | None => if path_eqb (n_path nd) q then Some nd else None
                                end.
Proof.
  intros t nd q. unfold add_node. induction t as [|x t IH]; cbn [app find_node]; auto.
  destruct (path_eqb (n_path x) q); auto.
Qed.

Lemma is_prefix_app : forall p q r, is_prefix p q = true -> is_prefix p (q ++ r) = true.
Proof.
  intros p q r H. apply is_prefix_spec in H as [x Hx]. apply is_prefix_spec. exists (x ++ r). now rewrite Hx, app_assoc.
Qed.

(* creating the node pp ++ [k] with payload d0, and telling its subscribers *)
Lemma create_step_J : forall B exc sv by_ pp k d0 o, small B ->
  inv_x B exc sv -> pend_ok sv -> (pp = [] \/ has_node (sv_tree sv) pp = true) ->
  (length (pp ++ [k]) = 2 -> exists ss, In ss (sv_sessions sv) /\ session_dir ss = pp ++ [k]) ->
  find_node (sv_tree sv) (pp ++ [k]) = None ->
  (o <> by_ \/ (forall ss, get_session sv o = Some ss -> own_node ss (pp ++ [k]) = true)) ->
  J sv o ->
  let sv2 := notify_changed (set_tree sv (add_node (sv_tree sv) (mkNode (pp ++ [k]) d0 (new_node_table sv (pp ++ [k])))))
                            by_ (pp ++ [k]) d0 None false in
  J sv2 o /\ pend_ok sv2 /\ inv_x B exc sv2 /\ has_node (sv_tree sv2) (pp ++ [k]) = true /\ same_sess sv sv2
  /\ sv_tree sv2 = add_node (sv_tree sv) (mkNode (pp ++ [k]) d0 (new_node_table sv (pp ++ [k]))).
Proof.
  intros B exc sv by_ pp k d0 o HB I Hpo Hpp Hd2 Hf Hwho HJ.
  set (nd := mkNode (pp ++ [k]) d0 (new_node_table sv (pp ++ [k]))).
  set (t1 := add_node (sv_tree sv) nd).
  assert (I1 : inv_x B exc (set_tree sv t1)) by (apply inv_add_node; auto).
  assert (Hf1 : find_node t1 (pp ++ [k]) = Some nd).
  { unfold t1. rewrite find_node_add, Hf. cbn [n_path nd]. now rewrite path_eqb_refl. }
  assert (Hoth : forall q, q <> pp ++ [k] -> find_node t1 q = find_node (sv_tree sv) q).
  { intros q Hq. unfold t1. rewrite find_node_add. destruct (find_node (sv_tree sv) q); auto.
    cbn [n_path nd]. assert (path_eqb (pp ++ [k]) q = false) as -> by (apply path_eqb_neq; congruence). reflexivity. }
  pose proof (micro_set_J sv t1 by_ (pp ++ [k]) nd o (inv_marks_ok _ _ _ I1) Hpo Hf1 Hoth Hwho HJ) as H.
  rewrite Hf in H. cbn [n_data nd option_map] in H.
  pose proof (notify_changed_core (set_tree sv t1) by_ (pp ++ [k]) d0 None false) as Hc.
  cbv zeta. fold nd. fold t1.
  split; [exact H|split; [apply pend_ok_notify_changed; exact Hpo|split; [eapply inv_same_core; [exact Hc|exact I1]|split; [|split]]]].
  - destruct Hc as [Ht _]. rewrite Ht. cbn [sv_tree set_tree].
    apply has_node_spec. exists nd. split; [apply find_node_some in Hf1; tauto|reflexivity].
  - apply (same_sess_trans sv (set_tree sv t1)); [reflexivity|now apply same_core_sess].
  - now destruct Hc as [Ht _].
Qed.

Lemma set_data_loop_J : forall B exc cl sv by_ pp d dc dow o, small B ->
  inv_x B exc sv -> pend_ok sv -> has_node (sv_tree sv) pp = true -> 2 <= length pp ->
  (forall ss, get_session sv by_ = Some ss -> is_prefix (session_dir ss) pp = true) ->
  J sv o ->
  J (set_data_loop sv by_ pp cl d dc dow false) o /\ pend_ok (set_data_loop sv by_ pp cl d dc dow false).
Proof.
  intros B exc. induction cl as [|k rest IH]; intros sv by_ pp d dc dow o HB I Hpo Hpp Hlen Hby HJ; cbn [set_data_loop]; auto.
  assert (Hwho : o <> by_ \/ (forall ss, get_session sv o = Some ss -> own_node ss (pp ++ [k]) = true)).
  { destruct (N.eq_dec o by_) as [E|E]; [right|now left]. subst o. intros ss Hss.
    apply own_node_of_prefix. apply is_prefix_app. now apply Hby. }
  destruct (find_node (sv_tree sv) (pp ++ [k])) as [n|] eqn:Hf.
  - destruct rest as [|k2 rest2].
    + destruct dow; auto.
      (* overwrite the payload of an existing node *)
      set (t1 := set_data (sv_tree sv) (pp ++ [k]) d).
      pose proof (inv_set_data B exc sv (pp ++ [k]) d I) as I1. fold t1 in I1.
      assert (Hf1 : find_node t1 (pp ++ [k]) = Some (mkNode (n_path n) d (n_subs n))).
      { unfold t1, set_data. rewrite find_node_map_node by reflexivity. rewrite Hf. cbn.
        apply find_node_some in Hf as [_ Hp]. now rewrite Hp, path_eqb_refl. }
      assert (Hoth : forall q, q <> pp ++ [k] -> find_node t1 q = find_node (sv_tree sv) q).
      { intros q Hq. unfold t1, set_data. rewrite find_node_map_node by reflexivity.
        destruct (find_node (sv_tree sv) q) as [x|] eqn:Hx; auto. cbn.
        apply find_node_some in Hx as [_ Hxp]. rewrite Hxp.
        assert (path_eqb q (pp ++ [k]) = false) as -> by (now apply path_eqb_neq). reflexivity. }
      pose proof (micro_set_J sv t1 by_ (pp ++ [k]) _ o (inv_marks_ok _ _ _ I1) Hpo Hf1 Hoth Hwho HJ) as H.
      rewrite Hf in H. cbn [n_data option_map] in H. split; [exact H|].
      apply pend_ok_notify_changed. exact Hpo.
    + apply IH; [exact HB|exact I|exact Hpo| | | |exact HJ].
      * apply has_node_spec. apply find_node_some in Hf. eauto.
      * rewrite app_length. cbn. lia.
      * intros ss Hss. apply is_prefix_app. now apply Hby.
  - destruct dc; auto.
    destruct (Nat.leb max_node_depth (length pp)); auto.
    assert (Hd2 : length (pp ++ [k]) = 2 -> exists ss, In ss (sv_sessions sv) /\ session_dir ss = pp ++ [k]).
    { intros H. rewrite app_length in H. cbn in H. lia. }
    destruct rest as [|k2 rest2].
    + destruct (create_step_J B exc sv by_ pp k d o HB I Hpo (or_intror Hpp) Hd2 Hf Hwho HJ) as [H1 [H2 _]]. split; auto.
    + destruct (create_step_J B exc sv by_ pp k empty_payload o HB I Hpo (or_intror Hpp) Hd2 Hf Hwho HJ) as [H1 [H2 [H3 [H4 [H5 _]]]]].
      apply IH; [exact HB|exact H3|exact H2|exact H4| | |exact H1].
      * rewrite app_length. cbn. lia.
      * intros ss Hss.
        destruct (get_session_sess sv _ by_ ss H5 Hss) as [ss0 [Hss0 [_ Hdir]]].
        rewrite <- Hdir. apply is_prefix_app. now apply Hby.
Qed.

(* ------------------------------------------------------------------ RemoveChild(recurse) *)

Lemma remove_fold_J : forall Lq sv by_ o,
  marks_ok sv -> pend_ok sv ->
  (forall q, In q Lq -> o <> by_ \/ (forall ss, get_session sv o = Some ss -> own_node ss q = true)) ->
  J sv o ->
  let sv' := fold_left (fun sv' q =>
               match find_node (sv_tree sv') q with
               | None => sv'
               | Some n =>
                 let sv1 := notify_changed sv' by_ q (n_data n) (Some (n_data n)) true in
                 set_tree sv1 (remove_node (sv_tree sv1) q)
               end) Lq sv in
  J sv' o /\ pend_ok sv' /\ marks_ok sv' /\ same_sess sv sv'.
Proof.
  induction Lq as [|q Lq IH]; intros sv by_ o Hmk Hpo Hwho HJ; cbn [fold_left].
  - split; [auto|split; [auto|split; [auto|reflexivity]]].
  - destruct (find_node (sv_tree sv) q) as [n|] eqn:Hf.
    + set (sv1 := notify_changed sv by_ q (n_data n) (Some (n_data n)) true).
      assert (Hc1 : same_core sv sv1) by apply notify_changed_core.
      set (sv2 := set_tree sv1 (remove_node (sv_tree sv1) q)).
      assert (Hs2 : same_sess sv sv2) by (apply (same_sess_trans sv sv1); [now apply same_core_sess|reflexivity]).
      destruct (IH sv2 by_ o) as [H1 [H2 [H3 H4]]].
      * unfold sv2. apply marks_ok_remove. now apply (marks_ok_core sv).
      * unfold sv2, sv1. apply pend_ok_notify_changed. exact Hpo.
      * intros q' Hq'. destruct (Hwho q' (or_intror Hq')) as [H|H]; [now left|right].
        intros ss2 Hss2. destruct (get_session_sess sv sv2 o ss2 Hs2 Hss2) as [ss [Hss [_ Hdir]]].
        rewrite <- (own_node_dir ss ss2 q' Hdir). now apply H.
      * unfold sv2, sv1. apply micro_remove_J; auto. apply Hwho. now left.
      * split; [auto|split; [auto|split; [auto|]]]. now apply (same_sess_trans sv sv2).
    + apply IH; auto. intros q' Hq'. apply Hwho. now right.
Qed.

Lemma remove_subtree_J : forall sv by_ p o,
  marks_ok sv -> pend_ok sv ->
  (o <> by_ \/ (forall ss, get_session sv o = Some ss -> is_prefix (session_dir ss) p = true)) ->
  J sv o ->
  J (remove_subtree sv by_ p true) o /\ pend_ok (remove_subtree sv by_ p true)
  /\ marks_ok (remove_subtree sv by_ p true) /\ same_sess sv (remove_subtree sv by_ p true).
Proof.
  intros sv by_ p o Hmk Hpo Hwho HJ. unfold remove_subtree.
  apply (remove_fold_J (removal_order (S (length (sv_tree sv))) (sv_tree sv) p) sv by_ o Hmk Hpo); auto.
  intros q Hq. destruct Hwho as [H|H]; [now left|right]. intros ss Hss.
  apply removal_order_below in Hq. specialize (H ss Hss). apply own_node_of_prefix.
  apply is_prefix_spec in H as [r1 Hr1]. apply is_prefix_spec in Hq as [r2 Hr2]. apply is_prefix_spec.
  exists (r1 ++ r2). now rewrite Hr2, Hr1, app_assoc.
Qed.

End Steps.
