(* Refl/MirrorQuiet.v -- quiet_frame: a quiet SETDATA / REMOVEDATA (nobody is told) of a session whose subtree none of the
   observer's subscription paths reaches leaves the observer's invariant J alone: no session record changes, the tree
   changes only below the sender's session node, and there the observer expects nothing, before and after. *)
From Coq Require Import List NArith ZArith Bool Arith Lia.
From Muscle Require Import Gen.Consts Refl.Base Refl.BaseProofs Refl.Tree Refl.TreeProofs Refl.Matcher Refl.MatcherProofs
     Refl.Traverse Refl.TraverseFold Refl.TraverseSpec Refl.Session Refl.Server Refl.ServerProofs Refl.Mirror Refl.MirrorBase
     Refl.MirrorServer Refl.MirrorNotify Refl.MirrorSem Refl.MirrorSteps Refl.MirrorHandlers Refl.MirrorFrame.
Import ListNotations.

Section Quiet.
Context {M : MatchOps} {L : MatchLaws M}.
Variable fx : fixes.
Variable mir : mirror.

Notation J := (J mir).
Notation V := (V mir).

(* none of the entries reaches below [dir] *)
Definition hidden_data (E : list entry) (dir : path) : Prop :=
  forall e, In e E -> forall q, is_prefix dir q = true -> pat_matches (e_pat e) q = false.

(* the quiet steps change neither the session records nor the dirty flag *)
Definition same_rest (sv sv' : server) : Prop := sv_sessions sv' = sv_sessions sv /\ sv_dirty sv' = sv_dirty sv.

Lemma same_rest_refl : forall sv, same_rest sv sv.
Proof. intros sv. split; reflexivity. Qed.

Lemma same_rest_trans : forall a b c, same_rest a b -> same_rest b c -> same_rest a c.
Proof. intros a b c [H1 H2] [H3 H4]. split; congruence. Qed.

Lemma same_rest_V : forall sv sv' o q, same_rest sv sv' -> V sv' o q = V sv o q.
Proof. intros sv sv' o q [H _]. unfold MirrorServer.V, get_session. now rewrite H. Qed.

Lemma same_rest_sess : forall sv sv', same_rest sv sv' -> same_sess sv sv'.
Proof. intros sv sv' [H _]. unfold same_sess. now rewrite H. Qed.

Lemma is_prefix_trans_app : forall pp k q, is_prefix (pp ++ [k]) q = true -> is_prefix pp q = true.
Proof.
  intros pp k q H. apply is_prefix_spec in H as [r Hr]. apply is_prefix_spec. exists ([k] ++ r). now rewrite app_assoc.
Qed.

Lemma is_prefix_refl : forall p : path, is_prefix p p = true.
Proof. intros p. apply is_prefix_spec. exists []. now rewrite app_nil_r. Qed.

(* ------------------------------------------------------------------ quiet SetDataNode *)

Lemma set_data_loop_quiet : forall cl sv by_ pp d dc dow,
  let sv' := set_data_loop sv by_ pp cl d dc dow true in
  same_rest sv sv' /\ forall q, is_prefix pp q = false -> data_at (sv_tree sv') q = data_at (sv_tree sv) q.
Proof.
  induction cl as [|k rest IH]; intros sv by_ pp d dc dow; cbn [set_data_loop]; [split; [apply same_rest_refl|auto]|].
  assert (Hq : forall q, is_prefix pp q = false -> path_eqb (pp ++ [k]) q = false).
  { intros q Hq. apply path_eqb_neq. intros E. subst q.
    assert (is_prefix pp (pp ++ [k]) = true) by (apply is_prefix_spec; eauto). congruence. }
  assert (Hq' : forall q, is_prefix pp q = false -> is_prefix (pp ++ [k]) q = false).
  { intros q Hq0. destruct (is_prefix (pp ++ [k]) q) eqn:E; auto. apply is_prefix_trans_app in E. congruence. }
  destruct (find_node (sv_tree sv) (pp ++ [k])) as [n|] eqn:Hf.
  - destruct rest as [|k2 rest2].
    + destruct dow; [split; [apply same_rest_refl|auto]|].
      split; [split; reflexivity|]. intros q Hpq. cbn [sv_tree set_tree]. unfold data_at, set_data.
      rewrite find_node_map_node by reflexivity. destruct (find_node (sv_tree sv) q) as [x|] eqn:Hx; [|reflexivity].
      cbn [option_map]. destruct (path_eqb (n_path x) (pp ++ [k])) eqn:E; [|reflexivity].
      apply path_eqb_eq in E. apply find_node_some in Hx as [_ Hx]. rewrite Hx in E. subst q.
      specialize (Hq _ Hpq). rewrite E, path_eqb_refl in Hq. discriminate.
    + destruct (IH sv by_ (pp ++ [k]) d dc dow) as [H1 H2]. split; [exact H1|]. intros q Hpq. apply H2. now apply Hq'.
  - destruct dc; [split; [apply same_rest_refl|auto]|].
    destruct (Nat.leb max_node_depth (length pp)); [split; [apply same_rest_refl|auto]|].
    set (nd := mkNode (pp ++ [k]) (match rest with [] => d | _ => empty_payload end) (new_node_table sv (pp ++ [k]))).
    set (sv1 := set_tree sv (add_node (sv_tree sv) nd)).
    assert (H1 : same_rest sv sv1 /\ forall q, is_prefix pp q = false -> data_at (sv_tree sv1) q = data_at (sv_tree sv) q).
    { split; [split; reflexivity|]. intros q Hpq. unfold sv1. cbn [sv_tree set_tree]. unfold data_at. rewrite find_node_add.
      destruct (find_node (sv_tree sv) q); [reflexivity|]. cbn [nd n_path]. now rewrite (Hq _ Hpq). }
    destruct H1 as [Ha Hb].
    destruct rest as [|k2 rest2]; [split; assumption|].
    destruct (IH sv1 by_ (pp ++ [k]) d false dow) as [H3 H4].
    split; [now apply (same_rest_trans sv sv1)|]. intros q Hpq. rewrite H4 by (now apply Hq'). now apply Hb.
Qed.

Lemma set_data_items_quiet : forall items sv s flags D, flag_set flags c_SETDATANODE_FLAG_QUIET = true ->
  (forall ss, get_session sv s = Some ss -> session_dir ss = D) ->
  let sv' := fold_left (fun sv' it => match get_session sv' s with
                                      | Some ss' => match fst it with
                                                    | [] => sv'
                                                    | _ => set_data_node sv' ss' (fst it) (snd it) flags
                                                    end
                                      | None => sv'
                                      end) items sv in
  same_rest sv sv' /\ forall q, is_prefix D q = false -> data_at (sv_tree sv') q = data_at (sv_tree sv) q.
Proof.
  induction items as [|it items IH]; intros sv s flags D Hfl HD; cbn [fold_left]; [split; [apply same_rest_refl|auto]|].
  destruct (get_session sv s) as [ss|] eqn:Hss; [|apply IH; auto; intros ss Hs; congruence].
  destruct (fst it) as [|k rel]; [apply IH; auto; intros ss0 Hs0; apply HD; congruence|].
  destruct (set_data_loop_quiet (k :: rel) sv (s_id ss) (session_dir ss) (snd it)
              (flag_set flags c_SETDATANODE_FLAG_DONTCREATENODE) (flag_set flags c_SETDATANODE_FLAG_DONTOVERWRITEDATA)) as [H1 H2].
  assert (E1 : set_data_node sv ss (k :: rel) (snd it) flags
               = set_data_loop sv (s_id ss) (session_dir ss) (k :: rel) (snd it)
                   (flag_set flags c_SETDATANODE_FLAG_DONTCREATENODE) (flag_set flags c_SETDATANODE_FLAG_DONTOVERWRITEDATA) true)
    by (unfold set_data_node; now rewrite Hfl).
  rewrite E1. clear E1.
  set (sv1 := set_data_loop sv (s_id ss) (session_dir ss) (k :: rel) (snd it) _ _ true) in *.
  destruct (IH sv1 s flags D Hfl) as [H3 H4].
  { intros ss1 Hs1. apply HD. unfold get_session in *. destruct H1 as [H1 _]. rewrite H1 in Hs1. congruence. }
  split; [exact (same_rest_trans _ _ _ H1 H3)|]. intros q Hq. rewrite H4 by auto. apply H2. now rewrite (HD ss eq_refl).
Qed.

(* ------------------------------------------------------------------ quiet removal *)

Lemma remove_subtree_quiet : forall sv by_ p,
  let sv' := remove_subtree sv by_ p false in
  same_rest sv sv' /\ forall q, is_prefix p q = false -> data_at (sv_tree sv') q = data_at (sv_tree sv) q.
Proof.
  intros sv by_ p. unfold remove_subtree.
  pose proof (removal_order_below (S (length (sv_tree sv))) (sv_tree sv) p) as Hb.
  revert Hb. generalize (removal_order (S (length (sv_tree sv))) (sv_tree sv) p). intros Lq.
  revert sv. induction Lq as [|x Lq IH]; intros sv Hb; cbn [fold_left]; [split; [apply same_rest_refl|auto]|].
  destruct (find_node (sv_tree sv) x) as [n|].
  - destruct (IH (set_tree sv (remove_node (sv_tree sv) x))) as [H1 H2]; [intros y Hy; apply Hb; now right|].
    split; [eapply same_rest_trans; [|exact H1]; split; reflexivity|].
    intros q Hq. rewrite H2 by auto. cbn [sv_tree set_tree]. unfold data_at. rewrite find_node_remove.
    destruct (path_eqb x q) eqn:E; [|reflexivity]. apply path_eqb_eq in E. subst x.
    rewrite (Hb q (or_introl eq_refl)) in Hq. discriminate.
  - apply IH. intros y Hy. apply Hb. now right.
Qed.

Lemma is_prefix_trans : forall a b c : path, is_prefix a b = true -> is_prefix b c = true -> is_prefix a c = true.
Proof.
  intros a b c H1 H2. apply is_prefix_spec in H1 as [r1 H1]. apply is_prefix_spec in H2 as [r2 H2].
  apply is_prefix_spec. exists (r1 ++ r2). subst. now rewrite app_assoc.
Qed.

Lemma do_remove_data_quiet : forall sv ss keys,
  let sv' := do_remove_data fx sv ss keys true in
  same_rest sv sv' /\ forall q, is_prefix (session_dir ss) q = false -> data_at (sv_tree sv') q = data_at (sv_tree sv) q.
Proof.
  intros sv ss keys. unfold do_remove_data.
  set (rs := do_traversal remove_cb (sv_tree sv) (m_of_list keys) (session_dir ss) true (fx_guard fx) []).
  assert (Hrs : forall p, In p rs -> is_prefix (session_dir ss) p = true).
  { intros p Hp. unfold rs in Hp.
    rewrite (do_traversal_go (list path) remove_cb
               (fun acc n => if Nat.ltb session_depth (depth n) then n_path n :: acc else acc)) in Hp.
    - apply fold_collect_in in Hp as [[]|[n [H1 H2]]]. apply vtrav_below_root in H1 as [r [_ Hr]].
      apply is_prefix_spec. exists r. congruence.
    - intros acc n. unfold remove_cb. destruct (Nat.ltb session_depth (depth n)); eexists; split; eauto; lia. }
  clearbody rs. cbn [negb]. revert sv. induction rs as [|p rs IH]; intros sv; cbn [fold_left]; [split; [apply same_rest_refl|auto]|].
  destruct (has_node (sv_tree sv) p).
  - destruct (remove_subtree_quiet sv (s_id ss) p) as [H1 H2].
    destruct (IH (fun x Hx => Hrs x (or_intror Hx)) (remove_subtree sv (s_id ss) p false)) as [H3 H4].
    split; [eapply same_rest_trans; eauto|]. intros q Hq. rewrite H4 by auto. apply H2.
    destruct (is_prefix p q) eqn:E; auto.
    rewrite (is_prefix_trans _ _ _ (Hrs p (or_introl eq_refl)) E) in Hq. discriminate.
  - apply IH. intros x Hx. apply Hrs. now right.
Qed.

(* ------------------------------------------------------------------ the frame *)

Lemma J_frame_foreign : forall sv sv' o, same_for o sv sv' -> (forall q, V sv' o q = V sv o q) ->
  (forall ss, get_session sv o = Some ss -> forall q, own_node ss q = false ->
              expected (sv_tree sv') ss q = expected (sv_tree sv) ss q) ->
  J sv o -> J sv' o.
Proof.
  intros sv sv' o Hs HV He HJ ss' Hss' q Hown.
  destruct (Hs ss' Hss') as [ss [Hss [Hsub Hdir]]].
  assert (Hown0 : own_node ss q = false) by (now rewrite (own_node_dir ss ss' q Hdir)).
  rewrite HV, (HJ ss Hss q Hown0).
  f_equal. rewrite <- (He ss Hss q Hown0). apply expected_subs. exact Hsub.
Qed.

Lemma J_frame_exp : forall sv sv' o, same_for o sv sv' -> (forall q, V sv' o q = V sv o q) ->
  (forall ss, get_session sv o = Some ss -> forall q, expected (sv_tree sv') ss q = expected (sv_tree sv) ss q) ->
  J sv o -> J sv' o.
Proof. intros sv sv' o Hs HV He. apply J_frame_foreign; auto. Qed.

Lemma expected_hidden : forall t (ss : session) D q, wf_groups (m_groups (s_subs ss)) ->
  hidden_data (all_entries (s_subs ss)) D -> is_prefix D q = true -> expected t ss q = None.
Proof.
  intros t ss D q Hw Hh Hq. unfold expected. destruct (find_node t q) as [n|]; [|reflexivity].
  destruct (matches_path (s_subs ss) q (Some (n_data n))) eqn:E; [|reflexivity].
  apply matches_path_spec in E as [e [He [Hm _]]]; auto. rewrite (Hh e He q Hq) in Hm. discriminate.
Qed.

(* quiet_frame: the tree changed only below D, the session records did not change, and the observer's entries do not
   reach below D *)
Theorem quiet_frame : forall B sv sv' o so D, inv B sv -> get_session sv o = Some so ->
  hidden_data (all_entries (s_subs so)) D ->
  same_rest sv sv' -> (forall q, is_prefix D q = false -> data_at (sv_tree sv') q = data_at (sv_tree sv) q) ->
  J sv o -> J sv' o.
Proof.
  intros B sv sv' o so D I Hso Hh Hr Hd HJ.
  assert (Hin : In so (sv_sessions sv)) by (apply find_session_some in Hso; tauto).
  destruct (inv_subs _ _ _ I so Hin) as [[Hw _] _].
  apply (J_frame_exp sv sv' o); auto.
  - apply same_sess_for. now apply same_rest_sess.
  - intros q. now apply same_rest_V.
  - intros ss Hss q. assert (ss = so) by congruence. subst ss.
    destruct (is_prefix D q) eqn:E.
    + now rewrite !(expected_hidden _ so D q Hw Hh E).
    + apply expected_data. now apply Hd.
Qed.

End Quiet.
