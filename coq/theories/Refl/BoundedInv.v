(* Refl/BoundedInv.v -- C07: what one client's traffic cannot do to another client.
   Part 1: no handler of the shared server model (Refl/Server.v) adds or drops a session other than by attach/detach of
   that very session: the list of session ids is an invariant of every command.  (The traversal is generic in its
   callback, so the invariant is first lifted through DoTraversal.) *)
From Coq Require Import List NArith ZArith Bool Arith Lia.
From Muscle Require Import Gen.Consts Refl.Base Refl.Tree Refl.Matcher Refl.Traverse Refl.Session Refl.Server.
Import ListNotations.

Ltac outer_if := match goal with |- context [if ?c then _ else _] => destruct c end.

(* ------------------------------------------------------------------ an invariant of the accumulator survives DoTraversal *)

Section TravInv.
Context {M : MatchOps}.
Variable A : Type.
Variable cb : A -> node -> A * Z.
Variable t : tree.
Variable m : matcher.
Variable rd : nat.
Variable uf gf : bool.
Variable P : A -> Prop.
Hypothesis Hcb : forall acc n, P acc -> P (fst (cb acc n)).

Lemma check_entries_inv : forall (rec : path -> A -> A * Z),
  (forall x acc, P acc -> P (fst (rec x acc))) ->
  forall es child rel known idx matched recursed acc,
  P acc -> P (fst (check_entries A cb m rd uf gf rec child rel known es idx matched recursed acc)).
Proof.
  intros rec Hrec es. induction es as [|e es IH]; intros child rel known idx matched recursed acc HP; cbn [check_entries].
  - exact HP.
  - cbv zeta. outer_if; [|apply IH; exact HP].
    outer_if.
    + destruct matched; [apply IH; exact HP|].
      outer_if; [|apply IH; exact HP].
      pose proof (Hcb acc child HP) as Hc. destruct (cb acc child) as [acc1 nd]. cbn [fst] in Hc.
      outer_if; [exact Hc|]. destruct recursed; [exact Hc|]. apply IH; exact Hc.
    + destruct recursed; [apply IH; exact HP|].
      pose proof (Hrec (n_path child) acc HP) as Hc. destruct (rec (n_path child) acc) as [acc1 nd]. cbn [fst] in Hc.
      outer_if; [exact Hc|]. destruct matched; [exact Hc|]. apply IH; exact Hc.
Qed.

Lemma iter_children_inv : forall (rec : path -> A -> A * Z),
  (forall x acc, P acc -> P (fst (rec x acc))) ->
  forall cs rel acc, P acc -> P (fst (iter_children A cb m rd uf gf rec rel cs acc)).
Proof.
  intros rec Hrec cs. induction cs as [|c cs IH]; intros rel acc HP; cbn [iter_children].
  - exact HP.
  - unfold check_child.
    pose proof (check_entries_inv rec Hrec (active m rel) c rel None 0 false false acc HP) as Hc.
    destruct (check_entries A cb m rd uf gf rec c rel None (active m rel) 0 false false acc) as [acc1 [d|]];
      cbn [fst] in *.
    + exact Hc.
    + apply IH. exact Hc.
Qed.

Lemma lookup_keys_inv : forall (rec : path -> A -> A * Z),
  (forall x acc, P acc -> P (fst (rec x acc))) ->
  forall ks x rel idx did acc, P acc -> P (fst (fst (lookup_keys A cb t m rd uf gf rec x rel idx ks did acc))).
Proof.
  intros rec Hrec ks. induction ks as [|k ks IH]; intros x rel idx did acc HP; cbn [lookup_keys].
  - exact HP.
  - destruct (get_child t x k) as [c|]; [|apply IH; exact HP].
    outer_if; [apply IH; exact HP|].
    unfold check_child.
    pose proof (check_entries_inv rec Hrec (active m rel) c rel (Some idx) 0 false false acc HP) as Hc.
    destruct (check_entries A cb m rd uf gf rec c rel (Some idx) (active m rel) 0 false false acc) as [acc1 [d|]];
      cbn [fst] in *.
    + exact Hc.
    + apply IH. exact Hc.
Qed.

Lemma lookup_entries_inv : forall (rec : path -> A -> A * Z),
  (forall x acc, P acc -> P (fst (rec x acc))) ->
  forall es x rel idx did acc, P acc -> P (fst (lookup_entries A cb t m rd uf gf rec x rel es idx did acc)).
Proof.
  intros rec Hrec es. induction es as [|e es IH]; intros x rel idx did acc HP; cbn [lookup_entries].
  - exact HP.
  - cbv zeta.
    match goal with |- context [lookup_keys A cb t m rd uf gf rec x rel idx ?ks did acc] =>
      pose proof (lookup_keys_inv rec Hrec ks x rel idx did acc HP) as Hc;
      destruct (lookup_keys A cb t m rd uf gf rec x rel idx ks did acc) as [[acc1 did1] [d|]]
    end; cbn [fst] in *.
    + exact Hc.
    + apply IH. exact Hc.
Qed.

Lemma trav_inv : forall fuel x acc, P acc -> P (fst (trav A cb t m rd uf gf fuel x acc)).
Proof.
  induction fuel as [|f IH]; intros x acc HP; cbn [trav].
  - exact HP.
  - cbv zeta. outer_if.
    + pose proof (iter_children_inv (trav A cb t m rd uf gf f) IH (children t x) (length x - rd) acc HP) as Hc.
      destruct (iter_children A cb m rd uf gf (trav A cb t m rd uf gf f) (length x - rd) (children t x) acc) as [acc1 [d|]];
        exact Hc.
    + pose proof (lookup_entries_inv (trav A cb t m rd uf gf f) IH (active m (length x - rd)) x (length x - rd) 0 [] acc HP) as Hc.
      destruct (lookup_entries A cb t m rd uf gf (trav A cb t m rd uf gf f) x (length x - rd) (active m (length x - rd)) 0 [] acc)
        as [acc1 [d|]]; exact Hc.
Qed.

End TravInv.

Lemma do_traversal_inv : forall {M : MatchOps} (A : Type) (cb : A -> node -> A * Z) (P : A -> Prop),
  (forall acc n, P acc -> P (fst (cb acc n))) ->
  forall t m root uf gf acc, P acc -> P (do_traversal cb t m root uf gf acc).
Proof.
  intros M A cb P Hcb t m root uf gf acc HP. unfold do_traversal. apply trav_inv; assumption.
Qed.

(* ------------------------------------------------------------------ the ids of the attached sessions *)

Section Ids.
Context {M : MatchOps}.

Definition ids (sv : server) : list sid := map s_id (sv_sessions sv).

Lemma ids_upd_session : forall sv s f, (forall x, s_id (f x) = s_id x) -> ids (upd_session sv s f) = ids sv.
Proof.
  intros sv s f Hf. unfold ids, upd_session. cbn [sv_sessions]. rewrite map_map. apply map_ext.
  intros x. destruct (N.eqb (s_id x) s); [apply Hf|reflexivity].
Qed.

Lemma ids_set_tree : forall sv t, ids (set_tree sv t) = ids sv.
Proof. reflexivity. Qed.

Lemma ids_set_dirty : forall sv b, ids (set_dirty sv b) = ids sv.
Proof. reflexivity. Qed.

Lemma s_id_push_pending : forall x : session, s_id (push_pending x) = s_id x.
Proof. intros x. unfold push_pending. destruct (s_pending x); reflexivity. Qed.

Lemma ids_push_all : forall sv, ids (push_all sv) = ids sv.
Proof.
  intros sv. unfold push_all. destruct (sv_dirty sv); [|reflexivity].
  unfold ids. cbn [sv_sessions]. rewrite map_map. apply map_ext. intros x. apply s_id_push_pending.
Qed.

Lemma find_session_ids : forall l w, (exists ss, find_session l w = Some ss) <-> In w (map s_id l).
Proof.
  induction l as [|x l IH]; intros w; cbn [find_session map In].
  - split; [intros [ss H]; discriminate|contradiction].
  - destruct (N.eqb (s_id x) w) eqn:E.
    + apply N.eqb_eq in E. split; [intros _; left; exact E|intros _; eexists; reflexivity].
    + apply N.eqb_neq in E. rewrite IH. split; [intros H; right; exact H|intros [H|H]; [contradiction|exact H]].
Qed.

Lemma get_session_ids : forall sv w, (exists ss, get_session sv w = Some ss) <-> In w (ids sv).
Proof. intros sv w. unfold get_session, ids. apply find_session_ids. Qed.

Lemma fold_left_ids : forall (B : Type) (f : server -> B -> server) (l : list B) (sv : server),
  (forall acc x, ids (f acc x) = ids acc) -> ids (fold_left f l sv) = ids sv.
Proof.
  intros B f l. induction l as [|x l IH]; intros sv Hf; cbn [fold_left].
  - reflexivity.
  - rewrite IH by exact Hf. apply Hf.
Qed.

Ltac ids_simpl :=
  repeat first [ rewrite ids_set_dirty | rewrite ids_set_tree | rewrite ids_push_all
               | rewrite ids_upd_session by (intros; reflexivity) ].

Lemma ids_node_changed_aux : forall sv s p d removed, ids (node_changed_aux sv s p d removed) = ids sv.
Proof.
  intros sv s p d removed. unfold node_changed_aux.
  destruct (get_session sv s) as [ss|]; [|reflexivity].
  cbv zeta.
  match goal with |- context [get_session ?sv1 s] =>
    assert (H1 : ids sv1 = ids sv);
    [ destruct removed; [destruct (di_has_set (pending_or_new ss) p)|]; ids_simpl; reflexivity
    | destruct (get_session sv1 s) as [ss1|]; [|exact H1];
      destruct (s_pending ss1) as [pd|]; [|exact H1];
      destruct (N.leb (s_max ss1) (di_num_names pd)); [rewrite ids_push_all|]; exact H1 ]
  end.
Qed.

Lemma ids_node_changed : forall sv s p d old removed, ids (node_changed sv s p d old removed) = ids sv.
Proof.
  intros sv s p d old removed. unfold node_changed.
  destruct (get_session sv s) as [ss|]; [|reflexivity].
  repeat first [ reflexivity | apply ids_node_changed_aux | outer_if | destruct old ].
Qed.

Lemma ids_notify_changed : forall sv by_ p d old removed, ids (notify_changed sv by_ p d old removed) = ids sv.
Proof.
  intros sv by_ p d old removed. unfold notify_changed.
  destruct (find_node (sv_tree sv) p) as [n|]; [|reflexivity].
  apply fold_left_ids. intros acc kc. destruct (N.eqb (fst kc) by_); [reflexivity|apply ids_node_changed].
Qed.

Lemma ids_set_data_loop : forall cl sv by_ pp d dc dov q, ids (set_data_loop sv by_ pp cl d dc dov q) = ids sv.
Proof.
  induction cl as [|k rest IH]; intros sv by_ pp d dc dov q; cbn [set_data_loop].
  - reflexivity.
  - cbv zeta. destruct (find_node (sv_tree sv) (pp ++ [k])) as [n|].
    + destruct rest as [|k2 rest2].
      * destruct dov; [reflexivity|]. destruct q; [reflexivity|]. rewrite ids_notify_changed. reflexivity.
      * apply IH.
    + destruct dc; [reflexivity|]. outer_if; [reflexivity|].
      destruct rest as [|k2 rest2].
      * destruct q; [reflexivity|]. rewrite ids_notify_changed. reflexivity.
      * rewrite IH. destruct q; [reflexivity|]. rewrite ids_notify_changed. reflexivity.
Qed.

Lemma ids_set_data_node : forall sv ss rel d flags, ids (set_data_node sv ss rel d flags) = ids sv.
Proof. intros. unfold set_data_node. apply ids_set_data_loop. Qed.

Lemma ids_remove_subtree : forall sv by_ p notify, ids (remove_subtree sv by_ p notify) = ids sv.
Proof.
  intros sv by_ p notify. unfold remove_subtree. apply fold_left_ids.
  intros acc q. destruct (find_node (sv_tree acc) q) as [n|]; [|reflexivity].
  rewrite ids_set_tree. destruct notify; [apply ids_notify_changed|reflexivity].
Qed.

Variable fx : fixes.

Lemma ids_do_remove_data : forall sv ss keys quiet, ids (do_remove_data fx sv ss keys quiet) = ids sv.
Proof.
  intros sv ss keys quiet. unfold do_remove_data. apply fold_left_ids.
  intros acc p. outer_if; [apply ids_remove_subtree|reflexivity].
Qed.

Lemma ids_do_get_data : forall sv s keys, ids (do_get_data fx sv s keys) = ids sv.
Proof.
  intros sv s keys. unfold do_get_data.
  match goal with |- context [do_traversal ?cb ?t ?m ?root ?uf ?gf ?acc] =>
    pose proof (do_traversal_inv _ cb (fun a => ids (snd a) = ids sv)) as Hinv;
    specialize (Hinv ltac:(
      intros [reply sv0] n HP; cbn [snd] in HP; unfold getdata_cb;
      destruct (get_session sv0 s) as [ss|]; [|exact HP];
      destruct (own_node ss (n_path n)); [exact HP|];
      outer_if; cbn [fst snd]; [rewrite ids_upd_session by (intros; reflexivity)|]; exact HP) t m root uf gf acc eq_refl);
    destruct (do_traversal cb t m root uf gf acc) as [reply sv1]
  end.
  cbn [snd] in Hinv. destruct reply; [rewrite ids_upd_session by (intros; reflexivity)|]; exact Hinv.
Qed.

Lemma ids_cqf_cb : forall s oldf newf sv n, ids (cqf_cb fx s oldf newf sv n) = ids sv.
Proof.
  intros s oldf newf sv n. unfold cqf_cb. cbv zeta. outer_if; [reflexivity|].
  destruct (get_session sv s) as [ss|]; [|reflexivity].
  outer_if; [reflexivity|apply ids_node_changed_aux].
Qed.

Lemma ids_subscribe_one : forall sv s sf, ids (subscribe_one fx sv s sf) = ids sv.
Proof.
  intros sv s sf. unfold subscribe_one. cbv zeta.
  destruct (get_session sv s) as [ss|]; [|reflexivity].
  destruct (fix_path (fst sf)) as [|c0 fp]; [reflexivity|].
  destruct (m_get (s_subs ss) (c0 :: fp)) as [e|].
  - rewrite ids_upd_session by (intros; reflexivity).
    destruct (snd sf), (e_flt e); try reflexivity;
      (apply (do_traversal_inv _ _ (fun a => ids a = ids sv)); [|reflexivity];
       intros acc n HP; unfold continue_cb; cbn [fst]; rewrite ids_cqf_cb; exact HP).
  - rewrite ids_set_tree. rewrite ids_upd_session by (intros; reflexivity). reflexivity.
Qed.

Lemma ids_unsubscribe_one : forall sv s sp, ids (unsubscribe_one fx sv s sp) = ids sv.
Proof.
  intros sv s sp. unfold unsubscribe_one. cbv zeta.
  destruct (get_session sv s) as [ss|]; [|reflexivity].
  destruct (m_remove (s_subs ss) (fix_path sp)) as [m'|]; [|reflexivity].
  rewrite ids_set_tree. rewrite ids_upd_session by (intros; reflexivity). reflexivity.
Qed.

(* induction over nested batches of the shared command type *)
Section CmdInd.
Variable P : cmd -> Prop.
Hypothesis H1 : forall flags items, P (CSetData flags items).
Hypothesis H2 : forall quiet keys, P (CRemoveData quiet keys).
Hypothesis H3 : forall quiet subs, P (CSubscribe quiet subs).
Hypothesis H4 : forall subs, P (CUnsubscribe subs).
Hypothesis H5 : forall n, P (CSetMax n).
Hypothesis H6 : P CResetMax.
Hypothesis H7 : forall keys, P (CGetData keys).
Hypothesis H8 : forall l, Forall P l -> P (CBatch l).

Fixpoint cmd_ind' (c : cmd) : P c :=
  match c with
  | CSetData flags items => H1 flags items
  | CRemoveData quiet keys => H2 quiet keys
  | CSubscribe quiet subs => H3 quiet subs
  | CUnsubscribe subs => H4 subs
  | CSetMax n => H5 n
  | CResetMax => H6
  | CGetData keys => H7 keys
  | CBatch l =>
    H8 l ((fix go (l : list cmd) : Forall P l :=
             match l with
             | [] => Forall_nil P
             | x :: r => Forall_cons x (cmd_ind' x) (go r)
             end) l)
  end.
End CmdInd.

(* every command of every session leaves the set of attached sessions alone *)
Lemma ids_handle : forall c nest sv s, ids (handle fx nest sv s c) = ids sv.
Proof.
  induction c as [flags items|quiet keys|quiet subs|subs|n| |keys|l IHl] using cmd_ind'; intros nest sv s;
    cbn [handle]; destruct (get_session sv s) as [ss|]; try reflexivity.
  - apply fold_left_ids. intros acc it. destruct (get_session acc s) as [ss'|]; [|reflexivity].
    destruct (fst it); [reflexivity|apply ids_set_data_node].
  - apply ids_do_remove_data.
  - assert (Hs : ids (fold_left (fun sv' sf => subscribe_one fx sv' s sf) subs sv) = ids sv).
    { apply fold_left_ids. intros acc sf. apply ids_subscribe_one. }
    destruct quiet; [exact Hs|]. destruct subs as [|sf0 subs']; [exact Hs|].
    rewrite ids_do_get_data. destruct (fx_push fx); [rewrite ids_push_all|]; exact Hs.
  - apply fold_left_ids. intros acc sp. apply ids_unsubscribe_one.
  - apply ids_upd_session. intros; reflexivity.
  - apply ids_upd_session. intros; reflexivity.
  - apply ids_do_get_data.
  - destruct (Nat.ltb nest max_batch_nest); [|reflexivity].
    revert sv. induction IHl as [|c' r Hc' _ IHr]; intros sv.
    + reflexivity.
    + rewrite IHr. rewrite ids_push_all. apply Hc'.
Qed.

Lemma ids_new_session : forall sv s host nm, ids (attach sv s host nm) = ids sv ++ [s].
Proof.
  intros sv s host nm. unfold attach. cbv zeta.
  rewrite ids_push_all, ids_notify_changed, ids_set_tree.
  outer_if.
  - unfold ids. cbn [sv_sessions]. rewrite map_app. reflexivity.
  - rewrite ids_notify_changed, ids_set_tree. unfold ids. cbn [sv_sessions]. rewrite map_app. reflexivity.
Qed.

Lemma map_filter_ids : forall (l : list session) (s : sid),
  map s_id (filter (fun x => negb (N.eqb (s_id x) s)) l) = filter (fun k => negb (N.eqb k s)) (map s_id l).
Proof.
  induction l as [|x l IH]; intros s; cbn [filter map].
  - reflexivity.
  - destruct (N.eqb (s_id x) s); cbn [negb map]; [apply IH|rewrite IH; reflexivity].
Qed.

Lemma ids_detach : forall sv s, ids (detach fx sv s) = filter (fun k => negb (N.eqb k s)) (ids sv).
Proof.
  intros sv s. unfold detach.
  destruct (get_session sv s) as [ss|] eqn:Hs.
  - cbv zeta.
    match goal with |- context [filter _ (sv_sessions ?sv3)] => assert (H3 : ids sv3 = ids sv) end.
    { repeat first [ reflexivity | rewrite ids_push_all | rewrite ids_remove_subtree | outer_if ]. }
    unfold ids in *. cbn [sv_sessions]. rewrite <- H3.
    apply map_filter_ids.
  - (* s is not attached: nothing happens, and s is not among the ids *)
    assert (Hn : ~ In s (ids sv)).
    { intros Hk. apply get_session_ids in Hk. destruct Hk as [ss Hss]. rewrite Hss in Hs. discriminate. }
    revert Hn. generalize (ids sv). induction l as [|k l IH]; intros Hn; cbn [filter].
    + reflexivity.
    + destruct (N.eqb k s) eqn:E; cbn [negb].
      * apply N.eqb_eq in E. subst k. exfalso. apply Hn. left. reflexivity.
      * rewrite <- IH; [reflexivity|]. intros Hk. apply Hn. right. exact Hk.
Qed.

End Ids.
