(* C06 -- property theorems only: each is closed by [exact] of a lemma proved elsewhere. *)
From Coq Require Import List NArith ZArith.
From Muscle Require Import Refl.Base Refl.Tree Refl.Matcher Refl.Session Refl.Server Refl.IsoModel Refl.IsoBase
     Refl.IsoFrame Refl.IsoProofs Refl.IsoExamples.
Import ListNotations.

(* A client cannot give itself privileges. *)
Theorem C06_setpriv_ignored : forall (M : MatchOps) fx nest xs s bits, xhandle fx nest xs s (XSetPriv bits) = xs.
Proof. exact @setpriv_ignored. Qed.
Print Assumptions C06_setpriv_ignored.

(* FRAME.  For every state xs (reachable or not), every session s that holds no privilege, and every list of commands cs
   -- any what-code, absolute paths, '..', wildcards, forged privilege bits and session fields, batches -- after the server
   has taken the turns for all of them:
     * the nodes outside s's directory are the same list (paths, payloads, order = child iteration order), with the same
       subscriber tables up to s's own mark,
     * every other session has the same identity, subscriptions and update limit, and is still attached,
     * every other session has the same privilege bits, s still has none, and nobody is marked for removal.
   It holds for the code as found and for every combination of the repairs (fx). *)
Theorem C06_frame_own_subtree : forall (M : MatchOps) (fx : fixes) cs xs s ss,
  get_session (xs_sv xs) s = Some ss -> unprivileged xs s -> xs_ducks xs = [] ->
  let xs' := xrun fx (map (XCmd s) cs) xs in
  foreign_view s (session_dir ss) (sv_tree (xs_sv xs')) = foreign_view s (session_dir ss) (sv_tree (xs_sv xs)) /\
  others_params s (xs_sv xs') = others_params s (xs_sv xs) /\
  idents (xs_sv xs') = idents (xs_sv xs) /\
  priv_remove (xs_priv xs') s = priv_remove (xs_priv xs) s /\
  unprivileged xs' s /\ xs_ducks xs' = [].
Proof. exact @frame_own_subtree. Qed.
Print Assumptions C06_frame_own_subtree.

(* the handler alone, at any batch nesting depth, in any state *)
Theorem C06_xhandle_xframe : forall (M : MatchOps) (fx : fixes) c nest xs s ss,
  get_session (xs_sv xs) s = Some ss -> xframe s (session_dir ss) xs (xhandle fx nest xs s c).
Proof. exact @xhandle_xframe. Qed.
Print Assumptions C06_xhandle_xframe.

(* between two turns nobody is marked for removal: the premise [xs_ducks xs = []] holds in every reachable state *)
Theorem C06_no_ducks_between_turns : forall (M : MatchOps) (fx : fixes) evs, xs_ducks (xrun fx evs empty_xserver) = [].
Proof. intros M fx evs. now apply xrun_no_ducks. Qed.
Print Assumptions C06_no_ducks_between_turns.

(* non-vacuity: a reachable state with an unprivileged session, foreign nodes carrying its marks, and a privileged neighbour *)
Example C06_frame_premises_satisfiable :
  let xs := ex_state as_found in
  exists ss, get_session (xs_sv xs) 10%N = Some ss /\ unprivileged xs 10%N /\ xs_ducks xs = [] /\
             length (foreign_view 10%N (session_dir ss) (sv_tree (xs_sv xs))) = 6 /\ has_priv xs 12%N 0%N = true.
Proof. vm_compute. eexists. repeat split; reflexivity. Qed.
