(* C06 -- property theorems only: each is closed by [exact] of a lemma proved elsewhere. *)
From Coq Require Import List NArith ZArith Bool.
From Muscle Require Import Gen.Consts Refl.Base Refl.BaseProofs Refl.Tree Refl.Matcher Refl.Session Refl.Server Refl.ServerProofs
     Refl.IsoModel Refl.IsoBase Refl.IsoFrame Refl.IsoProofs Refl.IsoTold Refl.IsoDetach Refl.IsoRun Refl.IsoClean
     Refl.IsoSimBase Refl.IsoSim Refl.IsoHosts Refl.IsoNever Refl.IsoKick Refl.IsoAsIf Refl.IsoCut Refl.IsoOrd Refl.IsoOrdProofs Refl.IsoOrdSim Refl.IsoHonest Refl.IsoQuiet Refl.IsoExamples.
Import ListNotations.

(* A client cannot give itself privileges. *)
Theorem C06_setpriv_ignored : forall (M : MatchOps) fx nest xs s bits, xhandle fx nest xs s (XSetPriv bits) = xs.
Proof. exact @setpriv_ignored. Qed.
Print Assumptions C06_setpriv_ignored.

(* the translated what-codes / privilege bits the dispatcher model branches on are pairwise distinct and in range *)
Theorem C06_dispatch_codes_ok :
  NoDup [c_PR_COMMAND_KICK; c_PR_COMMAND_ADDBANS; c_PR_COMMAND_ADDREQUIRES; c_PR_COMMAND_REMOVEBANS; c_PR_COMMAND_REMOVEREQUIRES;
         c_PR_COMMAND_PING; c_PR_COMMAND_GETPARAMETERS; c_PR_COMMAND_GETDATATREES; c_PR_COMMAND_SETDATATREES; c_PR_COMMAND_NOOP;
         c_PR_COMMAND_JETTISONRESULTS; c_PR_COMMAND_JETTISONDATATREES; c_PR_COMMAND_SETPARAMETERS; c_PR_COMMAND_REMOVEPARAMETERS;
         c_PR_COMMAND_SETDATA; c_PR_COMMAND_REMOVEDATA; c_PR_COMMAND_GETDATA; c_PR_COMMAND_BATCH; c_PR_COMMAND_INSERTORDEREDDATA;
         c_PR_COMMAND_REORDERDATA] /\
  forallb in_command_range
        [c_PR_COMMAND_KICK; c_PR_COMMAND_ADDBANS; c_PR_COMMAND_ADDREQUIRES; c_PR_COMMAND_REMOVEBANS; c_PR_COMMAND_REMOVEREQUIRES;
         c_PR_COMMAND_PING; c_PR_COMMAND_GETPARAMETERS; c_PR_COMMAND_GETDATATREES; c_PR_COMMAND_SETDATATREES; c_PR_COMMAND_NOOP;
         c_PR_COMMAND_JETTISONRESULTS; c_PR_COMMAND_JETTISONDATATREES; c_PR_COMMAND_SETPARAMETERS; c_PR_COMMAND_REMOVEPARAMETERS;
         c_PR_COMMAND_SETDATA; c_PR_COMMAND_REMOVEDATA; c_PR_COMMAND_GETDATA; c_PR_COMMAND_BATCH; c_PR_COMMAND_INSERTORDEREDDATA;
         c_PR_COMMAND_REORDERDATA] = true /\
  NoDup [c_PR_PRIVILEGE_KICK; c_PR_PRIVILEGE_ADDBANS; c_PR_PRIVILEGE_REMOVEBANS] /\
  forallb (fun b => N.ltb b c_PR_NUM_PRIVILEGES) [c_PR_PRIVILEGE_KICK; c_PR_PRIVILEGE_ADDBANS; c_PR_PRIVILEGE_REMOVEBANS] = true /\
  N.ltb c_PR_RESULT_ERRORACCESSDENIED c_BEGIN_PR_COMMANDS || N.ltb c_END_PR_COMMANDS c_PR_RESULT_ERRORACCESSDENIED = true.
Proof. exact dispatch_codes_ok. Qed.
Print Assumptions C06_dispatch_codes_ok.

(* FRAME.  For every state xs (reachable or not), every session s that holds no privilege, and every list of commands cs
   -- any what-code, absolute paths, '..', wildcards, forged privilege bits and session fields, batches -- after the server
   has taken the turns for all of them:
     * the nodes outside s's directory are the same list (paths, payloads, order = child iteration order), with the same
       subscriber tables up to s's own mark,
     * every other session has the same identity, subscriptions and update limit, and is still attached,
     * every other session has the same privilege bits, s still has none, and nobody is marked for removal.
   It holds for the code as found and for every combination of the repairs (fx). *)
Theorem C06_frame_own_subtree : forall (M : MatchOps) (fx : fixes) cs xs s ss,
  get_session (xs_sv xs) s = Some ss -> unprivileged xs s -> xs_ducks xs = [] ->
  let xs' := xrun fx (map (XCmd s) cs) xs in
  foreign_view s (session_dir ss) (sv_tree (xs_sv xs')) = foreign_view s (session_dir ss) (sv_tree (xs_sv xs)) /\
  others_params s (xs_sv xs') = others_params s (xs_sv xs) /\
  idents (xs_sv xs') = idents (xs_sv xs) /\
  priv_remove (xs_priv xs') s = priv_remove (xs_priv xs) s /\
  unprivileged xs' s /\ xs_ducks xs' = [].
Proof. exact @frame_own_subtree. Qed.
Print Assumptions C06_frame_own_subtree.

(* the handler alone, at any batch nesting depth, in any state *)
Theorem C06_xhandle_xframe : forall (M : MatchOps) (fx : fixes) c nest xs s ss,
  get_session (xs_sv xs) s = Some ss -> xframe s (session_dir ss) xs (xhandle fx nest xs s c).
Proof. exact @xhandle_xframe. Qed.
Print Assumptions C06_xhandle_xframe.

(* between two turns nobody is marked for removal: the premise [xs_ducks xs = []] holds in every reachable state *)
Theorem C06_no_ducks_between_turns : forall (M : MatchOps) (fx : fixes) evs, xs_ducks (xrun fx evs empty_xserver) = [].
Proof. intros M fx evs. now apply xrun_no_ducks. Qed.
Print Assumptions C06_no_ducks_between_turns.

(* non-vacuity: a reachable state with an unprivileged session, foreign nodes carrying its marks, and a privileged neighbour *)
Example C06_frame_premises_satisfiable :
  let xs := ex_state as_found in
  exists ss, get_session (xs_sv xs) 10%N = Some ss /\ unprivileged xs 10%N /\ xs_ducks xs = [] /\
             length (foreign_view 10%N (session_dir ss) (sv_tree (xs_sv xs))) = 6 /\ has_priv xs 12%N 0%N = true.
Proof. vm_compute. eexists. repeat split; reflexivity. Qed.

(* DETACH CLEAN.  For every history evs (arrivals under fresh (host, id) pairs, departures, commands of any kind from any number
   of sessions; fewer than 2^31-1 subscription strings added in total) and every session s attached at its end: when s's
   connection ends there -- with C03's "only complete Messages are dispatched" that covers a cut after any byte prefix --
   the resulting state satisfies [left_clean] (Refl/IsoClean.v): subtree gone, host node there iff another session uses the host,
   no subscriber table mentions s, s is no session any more and holds no privilege entry, all others keep identity /
   subscriptions / limits / privileges, every other node is kept and untouched up to s's mark, and every session owed a
   notice for a node of the subtree has been sent its removal.
   Premises: the laws of the external matching code (MatchLaws, C15) and the F12 repair (fx_guard, in /repo since 63c5c82). *)
Theorem C06_detach_clean : forall (M : MatchOps) (L : MatchLaws M) (fx : fixes), fx_guard fx = true ->
  forall evs s ss,
  small (xrun_budget evs) -> xwf_run fx empty_xserver evs ->
  let xs := xrun fx evs empty_xserver in
  get_session (xs_sv xs) s = Some ss ->
  left_clean xs s ss (xstep fx xs (XDetach s)).
Proof. exact @detach_clean. Qed.
Print Assumptions C06_detach_clean.

(* the same in any state that satisfies the server invariant (C04's [inv]), reachable or not *)
Theorem C06_xdetach_clean : forall (M : MatchOps) (L : MatchLaws M) (fx : fixes), fx_guard fx = true ->
  forall B xs s ss, small B -> inv B (xs_sv xs) -> xs_ducks xs = [] ->
  get_session (xs_sv xs) s = Some ss -> left_clean xs s ss (xdetach fx xs s).
Proof. exact @xdetach_clean. Qed.
Print Assumptions C06_xdetach_clean.

(* the server invariant holds after every history of the dispatcher model *)
Theorem C06_reachable_inv : forall (M : MatchOps) (L : MatchLaws M) (fx : fixes), fx_guard fx = true ->
  forall evs, small (xrun_budget evs) -> xwf_run fx empty_xserver evs ->
  inv (xrun_budget evs) (xs_sv (xrun fx evs empty_xserver)).
Proof. exact @reachable_inv. Qed.
Print Assumptions C06_reachable_inv.

(* non-vacuity: the example history is well-formed and small; session 11 is attached at its end and owns a node that
   session 10 is owed a removal notice for *)
Example C06_detach_premises_satisfiable :
  small (xrun_budget ex_history) /\ xwf_run all_fixed empty_xserver ex_history /\
  exists ss n st, get_session (xs_sv (ex_state all_fixed)) 11%N = Some ss /\
                  In n (sv_tree (xs_sv (ex_state all_fixed))) /\ is_prefix (session_dir ss) (n_path n) = true /\
                  get_session (xs_sv (ex_state all_fixed)) 10%N = Some st /\ owed st n.
Proof.
  split; [vm_compute; reflexivity|]. split.
  - cbn. repeat split; intros ss Hin; cbn in Hin;
      repeat (destruct Hin as [Hin|Hin]; [subst ss; cbn; discriminate|]); destruct Hin.
  - vm_compute. do 3 eexists. repeat split; try reflexivity.
    + right. right. right. right. left. reflexivity.
    + reflexivity.
    + left. reflexivity.
    + intros H. discriminate.
Qed.

(* AS IF NEVER.  For every session id s and every history evs in which s is never granted PR_PRIVILEGE_KICK -- OTHER sessions
   may hold it, and may kick anybody, s included, alone or inside batches -- (arrivals under fresh (host, id) pairs and fresh
   names, see xnm_event; fewer than 2^31-1 subscription strings added): let s's connection end after evs, and compare with
   the run of the history from which everything s did -- arriving, every command, leaving -- has been erased.  Below host
   level the two trees are the same list of nodes (paths, payloads, order = child iteration order, subscriber tables); the
   sessions are the same in the same order with the same identity, subscriptions and update limits; the privilege tables are
   the same; nobody is marked for removal.  What the other sessions were SENT meanwhile is not compared ("up to outputs
   already delivered").
   The kick traversal is the one of NodePathMatcher::DoTraversal with a callback that returns NODE_DEPTH_SESSIONNAME (Refl/
   TraverseExit.v); the two runs may visit the host nodes, and so mark the sessions, in a different order: removals of
   different sessions commute on everything compared here (Refl/IsoKick.v).  Host nodes: next theorem. *)
Theorem C06_as_if_never : forall (M : MatchOps) (L : MatchLaws M) (fx : fixes), fx_guard fx = true ->
  forall (s : sid) evs,
  small (xrun_budget evs) -> xwf_run fx empty_xserver evs -> xnm_run fx empty_xserver evs -> Forall (ev_nokick s) evs ->
  let XF := xstep fx (xrun fx evs empty_xserver) (XDetach s) in
  let XE := xrun fx (erase s evs) empty_xserver in
  body (sv_tree (xs_sv XF)) = body (sv_tree (xs_sv XE)) /\
  all_params (xs_sv XF) = all_params (xs_sv XE) /\
  xs_priv XF = xs_priv XE /\ xs_ducks XF = [] /\ xs_ducks XE = [].
Proof. exact @as_if_never. Qed.
Print Assumptions C06_as_if_never.

(* ... and the host nodes: the same hosts exist, with the same payload and the same subscriber count for every session *)
Theorem C06_as_if_never_hosts : forall (M : MatchOps) (L : MatchLaws M) (fx : fixes), fx_guard fx = true ->
  forall (s : sid) evs,
  small (xrun_budget evs) -> xwf_run fx empty_xserver evs -> xnm_run fx empty_xserver evs -> Forall (ev_nokick s) evs ->
  let XF := xstep fx (xrun fx evs empty_xserver) (XDetach s) in
  let XE := xrun fx (erase s evs) empty_xserver in
  forall h,
  match find_node (sv_tree (xs_sv XF)) [h], find_node (sv_tree (xs_sv XE)) [h] with
  | Some a, Some b => n_data a = n_data b /\ forall k, tbl_get (n_subs a) k = tbl_get (n_subs b) k
  | None, None => True
  | _, _ => False
  end.
Proof. exact @as_if_never_hosts. Qed.
Print Assumptions C06_as_if_never_hosts.

(* in every reachable state a host node exists iff a session lives on that host (and it carries the empty Message) *)
Theorem C06_reachable_hosts_ok : forall (M : MatchOps) (L : MatchLaws M) (fx : fixes), fx_guard fx = true ->
  forall evs xs B, small (B + xrun_budget evs) -> inv B (xs_sv xs) -> hosts_ok (xs_sv xs) ->
  xwf_run fx xs evs -> hosts_ok (xs_sv (xrun fx evs xs)).
Proof. exact @reachable_hosts_ok. Qed.
Print Assumptions C06_reachable_hosts_ok.

(* non-vacuity: a history in which session 11 really did something (three nodes, a refused kick, a refused write into 10's
   subtree), the others subscribed to its nodes, and session 12, which holds PR_PRIVILEGE_KICK, kicks 11 and later 10;
   erasing 11 leaves a different history, and both runs end with session 12 alone *)
Example C06_as_if_never_premises_satisfiable :
  small (xrun_budget ex_history3) /\ xwf_run all_fixed empty_xserver ex_history3 /\ xnm_run all_fixed empty_xserver ex_history3 /\
  Forall (ev_nokick 11%N) ex_history3 /\
  has_priv (xrun all_fixed ex_history3 empty_xserver) 12%N c_PR_PRIVILEGE_KICK = true /\
  length (erase 11%N ex_history3) = 5 /\
  length (sv_sessions (xs_sv (xrun all_fixed (firstn 5 ex_history3) empty_xserver))) = 3 /\
  length (sv_sessions (xs_sv (xrun all_fixed (firstn 6 ex_history3) empty_xserver))) = 2 /\
  length (sv_sessions (xs_sv (xrun all_fixed ex_history3 empty_xserver))) = 1 /\
  length (sv_sessions (xs_sv (xrun all_fixed (erase 11%N ex_history3) empty_xserver))) = 1.
Proof.
  split; [vm_compute; reflexivity|]. split; [|split].
  - cbn. repeat split; intros ss Hin; cbn in Hin;
      repeat (destruct Hin as [Hin|Hin]; [subst ss; cbn; discriminate|]); destruct Hin.
  - cbn. repeat split; try discriminate;
      repeat (match goal with H : _ \/ _ |- _ => destruct H as [H|H] | H : False |- _ => destruct H end); subst; cbn; discriminate.
  - split; [repeat (constructor; [cbn; intros; first [exact I|discriminate|reflexivity]|]); constructor|]. vm_compute. repeat split; reflexivity.
Qed.

(* BYTE-LEVEL CUT (composition with C03, Gw/FrameDefault.v d_prefix_safety).  The client queues any Messages on its standard
   binary gateway; DoOutput / DoInput calls with any maxBytes, any Write / Read results (zero- and one-byte ones included)
   in any interleaving move the bytes; the server-side session hands every delivered Message (read by ANY function decode;
   parsing is C01/C02's subject) to the dispatcher, interleaved with everything else the server does in ANY way (weave).
   Whenever the connection ends -- after any byte of the stream -- the server is in the state it would be in had the client
   sent exactly its first j Messages, for some j, and then closed the connection: a cut at a byte is a cut between two
   complete commands, and detach_clean / as_if_never apply to it. *)
Theorem C06_byte_cut_is_command_cut : forall (M : MatchOps) (fx : fixes) (decode : GwBase.bytes -> xcmd) (weave : list xevent -> list xevent)
  s xs0 max_in (evs : list (GwBase.event GwBase.bytes)),
  Forall (TransportProofs.ev_wf (FrameDefault.d_wfb max_in)) evs ->
  exists j, j <= length (GwBase.ev_msgs evs) /\
            cut_state fx decode weave s xs0 max_in evs =
            xstep fx (xrun fx (weave (cmds_of decode s (firstn j (GwBase.ev_msgs evs)))) xs0) (XDetach s).
Proof. exact @byte_cut_is_command_cut. Qed.
Print Assumptions C06_byte_cut_is_command_cut.

(* ... so the state after a cut at any byte is clean of s, for histories whose every command prefix is well-formed *)
Theorem C06_byte_cut_clean : forall (M : MatchOps) (L : MatchLaws M) (fx : fixes), fx_guard fx = true ->
  forall (decode : GwBase.bytes -> xcmd) (weave : list xevent -> list xevent) s max_in (evs : list (GwBase.event GwBase.bytes)),
  Forall (TransportProofs.ev_wf (FrameDefault.d_wfb max_in)) evs ->
  (forall j, small (xrun_budget (weave (cmds_of decode s (firstn j (GwBase.ev_msgs evs))))) /\
             xwf_run fx empty_xserver (weave (cmds_of decode s (firstn j (GwBase.ev_msgs evs))))) ->
  exists j, j <= length (GwBase.ev_msgs evs) /\
    let before := xrun fx (weave (cmds_of decode s (firstn j (GwBase.ev_msgs evs)))) empty_xserver in
    forall ss, get_session (xs_sv before) s = Some ss ->
    left_clean before s ss (cut_state fx decode weave s empty_xserver max_in evs).
Proof. exact @byte_cut_clean. Qed.
Print Assumptions C06_byte_cut_clean.

(* non-vacuity: a run in which the connection can end in the middle of a Message: two Messages queued, the first delivered
   whole, 5 of the second one's 10 bytes (8 header + 2 body) in the receiver's buffer; a cut now is the cut after one command *)
Example C06_byte_cut_premises_satisfiable :
  let evs : list (GwBase.event GwBase.bytes) :=
    [GwBase.EQueue [7%N; 7%N]; GwBase.EQueue [8%N; 8%N]; GwBase.EOut 100%N [10%N; 5%N]; GwBase.EIn 100%N [100%N; 100%N; 100%N; 100%N]] in
  Forall (TransportProofs.ev_wf (FrameDefault.d_wfb 1000%N)) evs /\
  GwBase.ev_msgs evs = [[7%N; 7%N]; [8%N; 8%N]] /\
  GwBase.s_dlv (GwBase.sys_run FrameModel.fs_queue FrameModel.d_do_output (FrameModel.d_do_input 1000%N) (FrameDefault.d_sys0) evs) = [[7%N; 7%N]] /\
  FrameModel.fr_buf (GwBase.s_rcv (GwBase.sys_run FrameModel.fs_queue FrameModel.d_do_output (FrameModel.d_do_input 1000%N) (FrameDefault.d_sys0) evs))
    = Some (2048%N, [2%N; 0%N; 0%N; 0%N; 48%N]).
Proof.
  cbv zeta. split; [|split; [|split]; vm_compute; reflexivity].
  repeat constructor; vm_compute; intros H; discriminate H.
Qed.

(* ORDERED CHILDREN (model: Refl/IsoOrd.v -- PR_COMMAND_INSERTORDEREDDATA with one key, PR_COMMAND_REORDERDATA, the ordered
   index and the name counter of every node, index entries and counters going with removed nodes).
   FRAME: whatever command s sends -- INSERTORDEREDDATA, REORDERDATA, anything of the dispatcher model, alone or in batches,
   with any keys, wildcards and absolute paths -- the frame of C06_xhandle_xframe holds for tree, sessions and privileges,
   and the ordered index and the name counter of every node outside s's subtree are what they were ([ok]: indices and
   counters belong to existing nodes at session level or below -- true in every reachable state, last theorem). *)
Theorem C06_ord_frame : forall (M : MatchOps) (fx : fixes) (iname : N -> name) c nest (os : oserver) s ss,
  get_session (xs_sv (o_x os)) s = Some ss -> ok os ->
  let os' := ohandle fx iname nest os s c in
  xframe s (session_dir ss) (o_x os) (o_x os') /\
  idx_out (session_dir ss) (o_idx os') = idx_out (session_dir ss) (o_idx os) /\
  ctr_out (session_dir ss) (o_ctr os') = ctr_out (session_dir ss) (o_ctr os) /\ ok os'.
Proof. exact @ohandle_frame. Qed.
Print Assumptions C06_ord_frame.

(* the same for a whole turn of the server (handler, update push, removal of kicked sessions, pruning) of an unprivileged s *)
Theorem C06_ord_turn_frame : forall (M : MatchOps) (fx : fixes) (iname : N -> name) (os : oserver) s c ss,
  get_session (xs_sv (o_x os)) s = Some ss -> ok os -> unprivileged (o_x os) s -> xs_ducks (o_x os) = [] ->
  let os' := ostep fx iname os (OCmd s c) in
  xframe s (session_dir ss) (o_x os) (o_x os') /\
  idx_out (session_dir ss) (o_idx os') = idx_out (session_dir ss) (o_idx os) /\
  ctr_out (session_dir ss) (o_ctr os') = ctr_out (session_dir ss) (o_ctr os) /\ ok os'.
Proof. exact @ostep_frame. Qed.
Print Assumptions C06_ord_turn_frame.

(* DETACH with ordered children: the dispatcher part is left clean as in C06_xdetach_clean, no ordered index and no name
   counter at or below s's directory is left (a later session or node of the same name starts from "I0" with an empty index),
   and the indices and counters of all nodes outside it are what they were *)
Theorem C06_ord_detach_clean : forall (M : MatchOps) (L : MatchLaws M) (fx : fixes), fx_guard fx = true ->
  forall (iname : N -> name) B (os : oserver) s ss, small B -> inv B (xs_sv (o_x os)) -> xs_ducks (o_x os) = [] ->
  get_session (xs_sv (o_x os)) s = Some ss -> ok os ->
  let os' := ostep fx iname os (ODetach s) in
  left_clean (o_x os) s ss (o_x os') /\
  (forall e, In e (o_idx os') -> is_prefix (session_dir ss) (fst e) = false) /\
  (forall e, In e (o_ctr os') -> is_prefix (session_dir ss) (fst e) = false) /\
  idx_out (session_dir ss) (o_idx os') = idx_out (session_dir ss) (o_idx os) /\
  ctr_out (session_dir ss) (o_ctr os') = ctr_out (session_dir ss) (o_ctr os) /\ ok os'.
Proof. exact @odetach_clean. Qed.
Print Assumptions C06_ord_detach_clean.

Theorem C06_ord_reachable_ok : forall (M : MatchOps) (fx : fixes) (iname : N -> name) evs (os : oserver),
  ok os -> ok (orun fx iname evs os).
Proof. exact @orun_ok. Qed.
Print Assumptions C06_ord_reachable_ok.

(* non-vacuity: in the example history session 11 builds an index [I2; I1; I0] under its node 7 (inserts before a given
   entry, a reorder), session 10's INSERTORDEREDDATA / REORDERDATA aimed at that node -- absolute paths, wildcards, in a
   batch -- change nothing, a removed child leaves the index, and 11's departure takes index and counter along *)
Example C06_ord_premises_satisfiable :
  ok (@empty_oserver ExOps) /\
  o_idx (orun all_fixed ex_iname (firstn 6 ex_ohistory) empty_oserver) = [([1%N; 11%N; 7%N], [1001%N; 1000%N])] /\
  o_idx (orun all_fixed ex_iname (firstn 7 ex_ohistory) empty_oserver) = [([1%N; 11%N; 7%N], [1001%N; 1000%N])] /\
  o_idx (orun all_fixed ex_iname (firstn 8 ex_ohistory) empty_oserver) = [([1%N; 11%N; 7%N], [1002%N; 1001%N; 1000%N])] /\
  o_idx (orun all_fixed ex_iname ex_ohistory empty_oserver) = [([1%N; 11%N; 7%N], [1002%N; 1001%N])] /\
  o_ctr (orun all_fixed ex_iname ex_ohistory empty_oserver) = [([1%N; 11%N; 7%N], 3%N)] /\
  o_idx (ostep all_fixed ex_iname (orun all_fixed ex_iname ex_ohistory empty_oserver) (ODetach 11%N)) = [] /\
  o_ctr (ostep all_fixed ex_iname (orun all_fixed ex_iname ex_ohistory empty_oserver) (ODetach 11%N)) = [].
Proof. split; [apply ok_empty|]. vm_compute. repeat split; reflexivity. Qed.

(* SETDATA with PR_NAME_FLAGS = QUIET|ADDTOINDEX: the quietly created, indexed child carries the mark of the session that was
   subscribed before it existed (so its later updates, its removal and its owner's departure are told), it is in its parent's
   index, and the existing node named in the same command keeps its data *)
Example C06_ord_quiet_indexed_child_is_marked :
  let os := orun all_fixed ex_iname ex_ohistory3 (@empty_oserver ExOps) in
  option_map n_subs (find_node (sv_tree (xs_sv (o_x os))) [1%N; 11%N; 7%N; 8%N]) = Some [(10%N, 1%N)] /\
  o_idx os = [([1%N; 11%N; 7%N], [8%N])] /\
  option_map n_data (find_node (sv_tree (xs_sv (o_x os))) [1%N; 11%N; 7%N]) = Some 5%N.
Proof. vm_compute. repeat split; reflexivity. Qed.

(* AS IF NEVER with ordered children: premises as for C06_as_if_never, on histories of the model of Refl/IsoOrd.v.  After s's
   connection has ended, trees (below host level), sessions and privileges agree with the run from which everything s did has
   been erased, and so do the ordered indices and the name counters of ALL nodes: the others' INSERTORDEREDDATA commands
   generated the same child names and built the same indices, whatever s inserted, reordered or removed, in its own subtree
   or aimed at theirs, and whether s left by itself or was kicked. *)
Theorem C06_ord_as_if_never : forall (M : MatchOps) (L : MatchLaws M) (fx : fixes), fx_guard fx = true ->
  forall (iname : N -> name) (s : sid) evs,
  small (orun_budget evs) -> owf_run fx iname empty_oserver evs -> onm_run fx iname empty_oserver evs -> Forall (oev_nokick s) evs ->
  let OF := ostep fx iname (orun fx iname evs empty_oserver) (ODetach s) in
  let OE := orun fx iname (oerase s evs) empty_oserver in
  body (sv_tree (xs_sv (o_x OF))) = body (sv_tree (xs_sv (o_x OE))) /\
  all_params (xs_sv (o_x OF)) = all_params (xs_sv (o_x OE)) /\
  xs_priv (o_x OF) = xs_priv (o_x OE) /\
  o_idx OF = o_idx OE /\ o_ctr OF = o_ctr OE.
Proof. exact @o_as_if_never. Qed.
Print Assumptions C06_ord_as_if_never.

(* non-vacuity: the second example history -- 10 builds an index under its own node while 11 builds one under its node and
   aims inserts and reorders at 10's -- satisfies the premises for s = 11; erasing 11 leaves a shorter history; 10's index
   and counter are there at the end of both runs *)
Example C06_ord_as_if_never_premises_satisfiable :
  small (orun_budget ex_ohistory2) /\ owf_run all_fixed ex_iname empty_oserver ex_ohistory2 /\
  onm_run all_fixed ex_iname empty_oserver ex_ohistory2 /\ Forall (oev_nokick 11%N) ex_ohistory2 /\
  length ex_ohistory2 = 9 /\ length (oerase 11%N ex_ohistory2) = 3 /\
  o_idx (orun all_fixed ex_iname ex_ohistory2 empty_oserver) = [([1%N; 10%N; 7%N], [1001%N; 1000%N]); ([1%N; 11%N; 7%N], [1000%N])] /\
  o_idx (orun all_fixed ex_iname (oerase 11%N ex_ohistory2) empty_oserver) = [([1%N; 10%N; 7%N], [1001%N; 1000%N])].
Proof.
  split; [vm_compute; reflexivity|]. split; [|split].
  - cbn. repeat split; intros ss Hin; cbn in Hin;
      repeat (destruct Hin as [Hin|Hin]; [subst ss; cbn; discriminate|]); destruct Hin.
  - cbn. repeat split; try discriminate;
      repeat (match goal with H : _ \/ _ |- _ => destruct H as [H|H] | H : False |- _ => destruct H end); subst; cbn; discriminate.
  - split; [repeat (constructor; [cbn; intros; first [exact I|discriminate|reflexivity]|]); constructor|]. vm_compute. repeat split; reflexivity.
Qed.

(* FORGED SESSION FIELDS.  Whatever what-code, keys and PR_NAME_SESSION string a session puts into a Message, in any state:
   everything the dispatcher adds to the outgoing log is either a bounce / reply to the sender itself, or a copy for SOMEBODY
   ELSE that names the true sender and carries the sender's own session name in PR_NAME_SESSION (if the field was present). *)
Theorem C06_session_field_true : forall (M : MatchOps) (fx : fixes) xs ss what keys sess,
  exists added, xs_log (dispatch fx xs ss what keys sess) = xs_log xs ++ added /\ Forall (honest ss what sess) added.
Proof. exact @dispatch_honest. Qed.
Print Assumptions C06_session_field_true.

(* NO SPOOFED NEWS.  In any state, after a whole turn of the server for any command of an unprivileged session s: whatever
   another session t holds in PR_RESULT_DATAITEMS Messages (handed to its gateway or still pending) either was there before
   the command or names a node at or below s's own directory -- s cannot make the server announce, change or retract, in
   anybody's eyes, a node that is not its own. *)
Theorem C06_quiet_step : forall (M : MatchOps) (fx : fixes) xs s c ss t,
  get_session (xs_sv xs) s = Some ss -> s <> t -> unprivileged xs s -> xs_ducks xs = [] ->
  only_about (session_dir ss) t (xs_sv xs) (xs_sv (xstep fx xs (XCmd s c))).
Proof. exact @quiet_step. Qed.
Print Assumptions C06_quiet_step.

(* non-vacuity: in the example state session 10 (unprivileged) is attached next to 11, which holds a Message naming a node *)
Example C06_quiet_premises_satisfiable :
  let xs := ex_state as_found in
  exists ss, get_session (xs_sv xs) 11%N = Some ss /\ unprivileged xs 11%N /\ xs_ducks xs = [] /\ 11%N <> 10%N /\
             mentions (xs_sv xs) 10%N <> [].
Proof. vm_compute. eexists. repeat split; try reflexivity; discriminate. Qed.
