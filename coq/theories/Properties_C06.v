(* C06 -- property theorems only: each is closed by [exact] of a lemma proved elsewhere. *)
From Coq Require Import List NArith ZArith Bool.
From Muscle Require Import Gen.Consts Refl.Base Refl.BaseProofs Refl.Tree Refl.Matcher Refl.Session Refl.Server Refl.ServerProofs
     Refl.IsoModel Refl.IsoBase Refl.IsoFrame Refl.IsoProofs Refl.IsoTold Refl.IsoDetach Refl.IsoRun Refl.IsoClean
     Refl.IsoSimBase Refl.IsoSim Refl.IsoHosts Refl.IsoNever Refl.IsoHonest Refl.IsoQuiet Refl.IsoExamples.
Import ListNotations.

(* A client cannot give itself privileges. *)
Theorem C06_setpriv_ignored : forall (M : MatchOps) fx nest xs s bits, xhandle fx nest xs s (XSetPriv bits) = xs.
Proof. exact @setpriv_ignored. Qed.
Print Assumptions C06_setpriv_ignored.

(* the translated what-codes / privilege bits the dispatcher model branches on are pairwise distinct and in range *)
Theorem C06_dispatch_codes_ok :
  NoDup [c_PR_COMMAND_KICK; c_PR_COMMAND_ADDBANS; c_PR_COMMAND_ADDREQUIRES; c_PR_COMMAND_REMOVEBANS; c_PR_COMMAND_REMOVEREQUIRES;
         c_PR_COMMAND_PING; c_PR_COMMAND_GETPARAMETERS; c_PR_COMMAND_GETDATATREES; c_PR_COMMAND_SETDATATREES; c_PR_COMMAND_NOOP;
         c_PR_COMMAND_JETTISONRESULTS; c_PR_COMMAND_JETTISONDATATREES; c_PR_COMMAND_SETPARAMETERS; c_PR_COMMAND_REMOVEPARAMETERS;
         c_PR_COMMAND_SETDATA; c_PR_COMMAND_REMOVEDATA; c_PR_COMMAND_GETDATA; c_PR_COMMAND_BATCH; c_PR_COMMAND_INSERTORDEREDDATA;
         c_PR_COMMAND_REORDERDATA] /\
  forallb in_command_range
        [c_PR_COMMAND_KICK; c_PR_COMMAND_ADDBANS; c_PR_COMMAND_ADDREQUIRES; c_PR_COMMAND_REMOVEBANS; c_PR_COMMAND_REMOVEREQUIRES;
         c_PR_COMMAND_PING; c_PR_COMMAND_GETPARAMETERS; c_PR_COMMAND_GETDATATREES; c_PR_COMMAND_SETDATATREES; c_PR_COMMAND_NOOP;
         c_PR_COMMAND_JETTISONRESULTS; c_PR_COMMAND_JETTISONDATATREES; c_PR_COMMAND_SETPARAMETERS; c_PR_COMMAND_REMOVEPARAMETERS;
         c_PR_COMMAND_SETDATA; c_PR_COMMAND_REMOVEDATA; c_PR_COMMAND_GETDATA; c_PR_COMMAND_BATCH; c_PR_COMMAND_INSERTORDEREDDATA;
         c_PR_COMMAND_REORDERDATA] = true /\
  NoDup [c_PR_PRIVILEGE_KICK; c_PR_PRIVILEGE_ADDBANS; c_PR_PRIVILEGE_REMOVEBANS] /\
  forallb (fun b => N.ltb b c_PR_NUM_PRIVILEGES) [c_PR_PRIVILEGE_KICK; c_PR_PRIVILEGE_ADDBANS; c_PR_PRIVILEGE_REMOVEBANS] = true /\
  N.ltb c_PR_RESULT_ERRORACCESSDENIED c_BEGIN_PR_COMMANDS || N.ltb c_END_PR_COMMANDS c_PR_RESULT_ERRORACCESSDENIED = true.
Proof. exact dispatch_codes_ok. Qed.
Print Assumptions C06_dispatch_codes_ok.

(* FRAME.  For every state xs (reachable or not), every session s that holds no privilege, and every list of commands cs
   -- any what-code, absolute paths, '..', wildcards, forged privilege bits and session fields, batches -- after the server
   has taken the turns for all of them:
     * the nodes outside s's directory are the same list (paths, payloads, order = child iteration order), with the same
       subscriber tables up to s's own mark,
     * every other session has the same identity, subscriptions and update limit, and is still attached,
     * every other session has the same privilege bits, s still has none, and nobody is marked for removal.
   It holds for the code as found and for every combination of the repairs (fx). *)
Theorem C06_frame_own_subtree : forall (M : MatchOps) (fx : fixes) cs xs s ss,
  get_session (xs_sv xs) s = Some ss -> unprivileged xs s -> xs_ducks xs = [] ->
  let xs' := xrun fx (map (XCmd s) cs) xs in
  foreign_view s (session_dir ss) (sv_tree (xs_sv xs')) = foreign_view s (session_dir ss) (sv_tree (xs_sv xs)) /\
  others_params s (xs_sv xs') = others_params s (xs_sv xs) /\
  idents (xs_sv xs') = idents (xs_sv xs) /\
  priv_remove (xs_priv xs') s = priv_remove (xs_priv xs) s /\
  unprivileged xs' s /\ xs_ducks xs' = [].
Proof. exact @frame_own_subtree. Qed.
Print Assumptions C06_frame_own_subtree.

(* the handler alone, at any batch nesting depth, in any state *)
Theorem C06_xhandle_xframe : forall (M : MatchOps) (fx : fixes) c nest xs s ss,
  get_session (xs_sv xs) s = Some ss -> xframe s (session_dir ss) xs (xhandle fx nest xs s c).
Proof. exact @xhandle_xframe. Qed.
Print Assumptions C06_xhandle_xframe.

(* between two turns nobody is marked for removal: the premise [xs_ducks xs = []] holds in every reachable state *)
Theorem C06_no_ducks_between_turns : forall (M : MatchOps) (fx : fixes) evs, xs_ducks (xrun fx evs empty_xserver) = [].
Proof. intros M fx evs. now apply xrun_no_ducks. Qed.
Print Assumptions C06_no_ducks_between_turns.

(* non-vacuity: a reachable state with an unprivileged session, foreign nodes carrying its marks, and a privileged neighbour *)
Example C06_frame_premises_satisfiable :
  let xs := ex_state as_found in
  exists ss, get_session (xs_sv xs) 10%N = Some ss /\ unprivileged xs 10%N /\ xs_ducks xs = [] /\
             length (foreign_view 10%N (session_dir ss) (sv_tree (xs_sv xs))) = 6 /\ has_priv xs 12%N 0%N = true.
Proof. vm_compute. eexists. repeat split; reflexivity. Qed.

(* DETACH CLEAN.  For every history evs (arrivals under fresh (host, id) pairs, departures, commands of any kind from any number
   of sessions; fewer than 2^31-1 subscription strings added in total) and every session s attached at its end: when s's
   connection ends there -- with C03's "only complete Messages are dispatched" that covers a cut after any byte prefix --
   the resulting state satisfies [left_clean] (Refl/IsoClean.v): subtree gone, host node there iff another session uses the host,
   no subscriber table mentions s, s is no session any more and holds no privilege entry, all others keep identity /
   subscriptions / limits / privileges, every other node is kept and untouched up to s's mark, and every session owed a
   notice for a node of the subtree has been sent its removal.
   Premises: the laws of the external matching code (MatchLaws, C15) and the F12 repair (fx_guard, in /repo since 63c5c82). *)
Theorem C06_detach_clean : forall (M : MatchOps) (L : MatchLaws M) (fx : fixes), fx_guard fx = true ->
  forall evs s ss,
  small (xrun_budget evs) -> xwf_run fx empty_xserver evs ->
  let xs := xrun fx evs empty_xserver in
  get_session (xs_sv xs) s = Some ss ->
  left_clean xs s ss (xstep fx xs (XDetach s)).
Proof. exact @detach_clean. Qed.
Print Assumptions C06_detach_clean.

(* the same in any state that satisfies the server invariant (C04's [inv]), reachable or not *)
Theorem C06_xdetach_clean : forall (M : MatchOps) (L : MatchLaws M) (fx : fixes), fx_guard fx = true ->
  forall B xs s ss, small B -> inv B (xs_sv xs) -> xs_ducks xs = [] ->
  get_session (xs_sv xs) s = Some ss -> left_clean xs s ss (xdetach fx xs s).
Proof. exact @xdetach_clean. Qed.
Print Assumptions C06_xdetach_clean.

(* the server invariant holds after every history of the dispatcher model *)
Theorem C06_reachable_inv : forall (M : MatchOps) (L : MatchLaws M) (fx : fixes), fx_guard fx = true ->
  forall evs, small (xrun_budget evs) -> xwf_run fx empty_xserver evs ->
  inv (xrun_budget evs) (xs_sv (xrun fx evs empty_xserver)).
Proof. exact @reachable_inv. Qed.
Print Assumptions C06_reachable_inv.

(* non-vacuity: the example history is well-formed and small; session 11 is attached at its end and owns a node that
   session 10 is owed a removal notice for *)
Example C06_detach_premises_satisfiable :
  small (xrun_budget ex_history) /\ xwf_run all_fixed empty_xserver ex_history /\
  exists ss n st, get_session (xs_sv (ex_state all_fixed)) 11%N = Some ss /\
                  In n (sv_tree (xs_sv (ex_state all_fixed))) /\ is_prefix (session_dir ss) (n_path n) = true /\
                  get_session (xs_sv (ex_state all_fixed)) 10%N = Some st /\ owed st n.
Proof.
  split; [vm_compute; reflexivity|]. split.
  - cbn. repeat split; intros ss Hin; cbn in Hin;
      repeat (destruct Hin as [Hin|Hin]; [subst ss; cbn; discriminate|]); destruct Hin.
  - vm_compute. do 3 eexists. repeat split; try reflexivity.
    + right. right. right. right. left. reflexivity.
    + reflexivity.
    + left. reflexivity.
    + intros H. discriminate.
Qed.

(* AS IF NEVER.  For every history evs in which nobody is granted PR_PRIVILEGE_KICK (arrivals under fresh (host, id) pairs,
   fewer than 2^31-1 subscription strings added) and every session id s: let s's connection end after evs, and compare with
   the run of the history from which everything s did -- arriving, every command, leaving -- has been erased.  Below host
   level the two trees are the same list of nodes (paths, payloads, order = child iteration order, subscriber tables); the
   sessions are the same in the same order with the same identity, subscriptions and update limits; the privilege tables are
   the same; nobody is marked for removal.  What the other sessions were SENT meanwhile is not compared ("up to outputs
   already delivered").
   Partial with respect to the property text in one respect only: histories in which some session holds the kick privilege
   are excluded (a privileged kick is a visible effect by design; with it the order in which several kicked sessions are
   removed enters).  Host nodes: next theorem. *)
Theorem C06_as_if_never_partial : forall (M : MatchOps) (L : MatchLaws M) (fx : fixes), fx_guard fx = true ->
  forall (s : sid) evs,
  small (xrun_budget evs) -> xwf_run fx empty_xserver evs -> Forall ev_nokick evs ->
  let XF := xstep fx (xrun fx evs empty_xserver) (XDetach s) in
  let XE := xrun fx (erase s evs) empty_xserver in
  body (sv_tree (xs_sv XF)) = body (sv_tree (xs_sv XE)) /\
  all_params (xs_sv XF) = all_params (xs_sv XE) /\
  xs_priv XF = xs_priv XE /\ xs_ducks XF = [] /\ xs_ducks XE = [].
Proof. exact @as_if_never. Qed.
Print Assumptions C06_as_if_never_partial.

(* ... and the host nodes: the same hosts exist, with the same payload and the same subscriber count for every session *)
Theorem C06_as_if_never_hosts : forall (M : MatchOps) (L : MatchLaws M) (fx : fixes), fx_guard fx = true ->
  forall (s : sid) evs,
  small (xrun_budget evs) -> xwf_run fx empty_xserver evs -> Forall ev_nokick evs ->
  let XF := xstep fx (xrun fx evs empty_xserver) (XDetach s) in
  let XE := xrun fx (erase s evs) empty_xserver in
  forall h,
  match find_node (sv_tree (xs_sv XF)) [h], find_node (sv_tree (xs_sv XE)) [h] with
  | Some a, Some b => n_data a = n_data b /\ forall k, tbl_get (n_subs a) k = tbl_get (n_subs b) k
  | None, None => True
  | _, _ => False
  end.
Proof. exact @as_if_never_hosts. Qed.
Print Assumptions C06_as_if_never_hosts.

(* in every reachable state a host node exists iff a session lives on that host (and it carries the empty Message) *)
Theorem C06_reachable_hosts_ok : forall (M : MatchOps) (L : MatchLaws M) (fx : fixes), fx_guard fx = true ->
  forall evs xs B, small (B + xrun_budget evs) -> inv B (xs_sv xs) -> hosts_ok (xs_sv xs) ->
  xwf_run fx xs evs -> hosts_ok (xs_sv (xrun fx evs xs)).
Proof. exact @reachable_hosts_ok. Qed.
Print Assumptions C06_reachable_hosts_ok.

(* non-vacuity: a history without kick privilege in which session 11 really did something (three nodes, a refused kick,
   a refused write into 10's subtree) and the others subscribed to its nodes; erasing 11 leaves a different history *)
Example C06_as_if_never_premises_satisfiable :
  small (xrun_budget ex_history2) /\ xwf_run all_fixed empty_xserver ex_history2 /\ Forall ev_nokick ex_history2 /\
  length (erase 11%N ex_history2) = 4 /\
  length (sv_tree (xs_sv (xrun all_fixed ex_history2 empty_xserver))) = 8 /\
  length (sv_tree (xs_sv (xrun all_fixed (erase 11%N ex_history2) empty_xserver))) = 4.
Proof.
  split; [vm_compute; reflexivity|]. split.
  - cbn. repeat split; intros ss Hin; cbn in Hin;
      repeat (destruct Hin as [Hin|Hin]; [subst ss; cbn; discriminate|]); destruct Hin.
  - split; [repeat constructor|]. vm_compute. repeat split; reflexivity.
Qed.

(* FORGED SESSION FIELDS.  Whatever what-code, keys and PR_NAME_SESSION string a session puts into a Message, in any state:
   everything the dispatcher adds to the outgoing log is either a bounce / reply to the sender itself, or a copy for SOMEBODY
   ELSE that names the true sender and carries the sender's own session name in PR_NAME_SESSION (if the field was present). *)
Theorem C06_session_field_true : forall (M : MatchOps) (fx : fixes) xs ss what keys sess,
  exists added, xs_log (dispatch fx xs ss what keys sess) = xs_log xs ++ added /\ Forall (honest ss what sess) added.
Proof. exact @dispatch_honest. Qed.
Print Assumptions C06_session_field_true.

(* NO SPOOFED NEWS.  In any state, after a whole turn of the server for any command of an unprivileged session s: whatever
   another session t holds in PR_RESULT_DATAITEMS Messages (handed to its gateway or still pending) either was there before
   the command or names a node at or below s's own directory -- s cannot make the server announce, change or retract, in
   anybody's eyes, a node that is not its own. *)
Theorem C06_quiet_step : forall (M : MatchOps) (fx : fixes) xs s c ss t,
  get_session (xs_sv xs) s = Some ss -> s <> t -> unprivileged xs s -> xs_ducks xs = [] ->
  only_about (session_dir ss) t (xs_sv xs) (xs_sv (xstep fx xs (XCmd s c))).
Proof. exact @quiet_step. Qed.
Print Assumptions C06_quiet_step.

(* non-vacuity: in the example state session 10 (unprivileged) is attached next to 11, which holds a Message naming a node *)
Example C06_quiet_premises_satisfiable :
  let xs := ex_state as_found in
  exists ss, get_session (xs_sv xs) 11%N = Some ss /\ unprivileged xs 11%N /\ xs_ducks xs = [] /\ 11%N <> 10%N /\
             mentions (xs_sv xs) 10%N <> [].
Proof. vm_compute. eexists. repeat split; try reflexivity; discriminate. Qed.
