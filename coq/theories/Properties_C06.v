(* C06 -- property theorems only: each is closed by [exact] of a lemma proved elsewhere. *)
From Coq Require Import List NArith ZArith.
From Muscle Require Import Refl.Base Refl.Server Refl.IsoModel Refl.IsoProofs.

Theorem C06_setpriv_ignored : forall (M : MatchOps) fx nest xs s bits, xhandle fx nest xs s (XSetPriv bits) = xs.
Proof. exact @setpriv_ignored. Qed.
Print Assumptions C06_setpriv_ignored.
