(* C07 -- property theorems only: each is closed by [exact] of a lemma proved elsewhere. *)
From Coq Require Import List NArith ZArith.
From Muscle Require Import Refl.Base Refl.Bounded Refl.BoundedProofs.

Theorem C07_remove_nth_out_of_range : forall (A : Type) (n : nat) (l : list A),
  length l <= n -> remove_nth n l = l.
Proof. exact remove_nth_out_of_range. Qed.
Print Assumptions C07_remove_nth_out_of_range.
