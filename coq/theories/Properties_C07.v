(* C07 -- property theorems only: each is closed by [exact] of a lemma proved elsewhere
   (Refl/BoundedProofs.v, Refl/BoundedRefuted.v).  Model: Refl/Bounded.v over the shared server model Refl/Server.v;
   the fuel-free meanings and the size measures are in Refl/BoundedSpec.v.  [MatchOps] (clause matching, query
   filters: external code) is a parameter of every statement: the theorems hold for any matcher and any filter. *)
From Coq Require Import List NArith ZArith.
From Muscle Require Import Refl.Base Refl.Matcher Refl.Session Refl.Server Refl.Bounded Refl.BoundedSpec
  Refl.BoundedProofs Refl.BoundedRefuted Refl.BoundedServe Refl.BoundedLoops Refl.BoundedTrav Refl.BoundedSound Refl.BoundedCount Refl.BoundedCost Refl.BoundedPoly
  Refl.Tree Refl.Traverse Refl.Dispatch Refl.DispatchProofs Gen.Consts.
Import ListNotations.

(* JettisonOutgoingResults (repaired loop, RemoveData(name, j)): for every queue and every matcher it returns as soon as
   the fuel exceeds the weight of the heaviest queued Message, and removes exactly what the matcher accepts. *)
Theorem C07_jettison_results_fuel : forall (M : MatchOps) (om : option matcher) (fuel : nat) (q : list omsg),
  qweight q < fuel -> jettison_results true om fuel q = Some (jq_spec om q).
Proof. exact @jettison_results_spec. Qed.
Print Assumptions C07_jettison_results_fuel.

(* PushSubscriptionMessages' while-dirty loop runs at most twice *)
Theorem C07_push_loop_fuel : forall (M : MatchOps) (fuel : nat) (sv : server),
  2 <= fuel -> push_loop fuel sv = Some (push_all sv).
Proof. exact @push_loop_spec. Qed.
Print Assumptions C07_push_loop_fuel.

(* handler_fuel, first half: MessageReceivedFromGateway returns for EVERY command (any nesting of batches) in EVERY state with
   fuel linear in the heaviest outgoing Message a jettison pass meets while the handler runs ([hpeak]); it computes
   [bhandle_spec].  The second half, C07_handler_fuel below, bounds [hpeak] by a polynomial in the state and the command. *)
Theorem C07_handler_fuel_peak : forall (M : MatchOps) (fx : fixes) (c : bcmd) (fuel nest : nat) (b : bserver) (s : sid),
  2 <= fuel -> hpeak fx nest b s c < fuel ->
  bhandle fx true fuel nest b s c = Some (bhandle_spec fx nest b s c).
Proof. exact @handler_fuel. Qed.
Print Assumptions C07_handler_fuel_peak.

(* handler_fuel (DESIGN 6, C07: "every handler returns within poly(size state + size msg) steps"): in every state with
   distinct session ids and distinct node paths ([good_sv], an invariant of the reachable states, kept by every command:
   C07_good_sv_cmd), for EVERY command of size z = [bsize c] (path clauses + keys + subscriptions + sub-commands), with NT
   nodes, node weight SZ (nodes + subscriber-table entries), NS sessions and tw items already held in DATAITEMS Messages,
   fuel above  max(heaviest Message queued for the session, tw + z*(SZ + z*(NT+z+NS+1) + NT + 2*NS + 1))  is adequate:
   every loop instance of the handler iterates at most that often.  (Cost accounting: Refl/BoundedCost.v -- one item per
   NodeChangedAux / GetDataCallback call; Refl/BoundedCount.v -- a traversal calls back at most once per node.) *)
Theorem C07_handler_fuel : forall (M : MatchOps) (fx : fixes) (c : bcmd) (fuel nest : nat) (b : bserver) (s : sid),
  good_sv (b_sv b) -> 2 <= fuel ->
  Nat.max (qweight (queue_of b s))
          (tw (b_sv b) + Gf (bsize c) (length (sv_tree (b_sv b))) (SZ (sv_tree (b_sv b))) (NS (b_sv b))) < fuel ->
  bhandle fx true fuel nest b s c = Some (bhandle_spec fx nest b s c).
Proof. exact @handler_fuel_poly. Qed.
Print Assumptions C07_handler_fuel.

Theorem C07_hpeak_poly : forall (M : MatchOps) (fx : fixes) (c : bcmd) (nest : nat) (b : bserver) (s : sid),
  good_sv (b_sv b) ->
  hpeak fx nest b s c <=
  Nat.max (qweight (queue_of b s))
          (tw (b_sv b) + Gf (bsize c) (length (sv_tree (b_sv b))) (SZ (sv_tree (b_sv b))) (NS (b_sv b))).
Proof. exact @hpeak_poly. Qed.
Print Assumptions C07_hpeak_poly.

Theorem C07_good_sv_cmd : forall (M : MatchOps) (fx : fixes) (b : bserver) (s : sid) (c : bcmd),
  good_sv (b_sv b) -> good_sv (b_sv (bstep_spec fx b (BCmd s c))).
Proof. exact @good_sv_cmd. Qed.
Print Assumptions C07_good_sv_cmd.

(* a traversal calls its callback at most once per node: any measure one call raises by at most 1 grows by at most |tree| *)
Theorem C07_traversal_calls : forall (M : MatchOps) (A : Type) (cb : A -> node -> A * Z) (mu : A -> nat) (Q : A -> Prop),
  (forall acc n, Q acc -> Q (fst (cb acc n)) /\ mu (fst (cb acc n)) <= mu acc + 1) ->
  forall t m root uf gf acc, NoDup (map n_path t) -> Q acc ->
  Q (do_traversal cb t m root uf gf acc) /\ mu (do_traversal cb t m root uf gf acc) <= mu acc + length t.
Proof. exact @do_traversal_cost. Qed.
Print Assumptions C07_traversal_calls.

Example C07_good_sv_satisfiable : @good_sv tiny_ops (@b_sv tiny_ops w_state).
Proof. exact w_good. Qed.

Theorem C07_handler_returns : forall (M : MatchOps) (fx : fixes) (c : bcmd) (nest : nat) (b : bserver) (s : sid),
  exists fuel0, forall fuel, fuel0 <= fuel -> exists b', bhandle fx true fuel nest b s c = Some b'.
Proof. exact @handler_returns. Qed.
Print Assumptions C07_handler_returns.

(* server_step_total: one turn of the event loop (a session arrives, leaves, stops/resumes reading, or one Message of any
   modelled kind is dispatched and the subscription updates are pushed) returns in every state; so does every history. *)
Theorem C07_server_step_total : forall (M : MatchOps) (fx : fixes) (fuel : nat) (b : bserver) (ev : bevent),
  2 <= fuel -> speak fx b ev < fuel -> bstep fx true fuel b ev = Some (bstep_spec fx b ev).
Proof. exact @server_step_total. Qed.
Print Assumptions C07_server_step_total.

Theorem C07_server_run_total : forall (M : MatchOps) (fx : fixes) (fuel : nat) (evs : list bevent) (b : bserver),
  2 <= fuel -> rpeak fx evs b < fuel -> brun fx true fuel evs b = Some (brun_spec fx evs b).
Proof. exact @server_run_total. Qed.
Print Assumptions C07_server_run_total.

(* the same for the sources the check runs on: [code_jfix] / [code_fixes] are computed from regenerated flags; if the loop
   regresses to the queue index, [code_jfix] is false and this theorem no longer checks *)
Theorem C07_code_run_total : forall (M : MatchOps) (fuel : nat) (evs : list bevent) (b : bserver),
  2 <= fuel -> rpeak code_fixes evs b < fuel ->
  brun code_fixes code_jfix fuel evs b = Some (brun_spec code_fixes evs b).
Proof. exact @code_run_total. Qed.
Print Assumptions C07_code_run_total.

(* NodeChangedAux written on fuel with its nest counter (cap c_max_node_changed_aux_nest_count) IS the structural
   definition of the shared model: the "flush, then start again" recursion nests exactly once, the cap is never reached *)
Theorem C07_node_changed_aux_fuel : forall (M : MatchOps) (fuel nest : nat) (sv : server) (s : sid) (p : path) (d : payload) (removed : bool),
  3 <= fuel -> nest < max_nca_nest ->
  nca_rec fuel nest sv s p d removed = Some (node_changed_aux sv s p d removed).
Proof. exact @nca_rec_spec. Qed.
Print Assumptions C07_node_changed_aux_fuel.

(* DataNode::RemoveChild(key, notify, recurse): `while(HasChildren()) RemoveChild(first)` returns within fuel linear in the
   number of nodes; afterwards the node is gone and no node was added *)
Theorem C07_remove_child_fuel : forall (M : MatchOps) (by_ : sid) (notify : bool) (sv : server) (p : path) (fuel : nat),
  2 * length (sv_tree sv) + 2 <= fuel ->
  exists sv', remove_rec (leave_node by_ notify) fuel sv p = Some sv' /\
              find_node (sv_tree sv') p = None /\ length (sv_tree sv') <= length (sv_tree sv).
Proof. exact @remove_child_fuel. Qed.
Print Assumptions C07_remove_child_fuel.

(* NodePathMatcher::DoTraversalAux: the fuel the shared model gives it (clause levels + 1) is adequate -- any larger
   amount gives the same result, for every callback, tree, pattern set and starting node *)
Theorem C07_traversal_fuel : forall (M : MatchOps) (A : Type) (cb : A -> node -> A * Z) t m root uf gf acc extra,
  do_traversal cb t m root uf gf acc =
  fst (trav A cb t m (length root) uf gf (S (max_clauses m) + extra) root acc).
Proof. exact @do_traversal_fuel. Qed.
Print Assumptions C07_traversal_fuel.

(* the what-code dispatch over the regenerated constants: every code of the command range reaches a modelled handler
   (unknown codes are bounced), except three named commands; codes outside the range are never dispatched to a handler *)
Theorem C07_dispatch_range_modelled : forall what,
  in_command_range what = true -> modelled (dispatch what) = true \/ In what unmodelled_commands.
Proof. exact dispatch_range_modelled. Qed.
Print Assumptions C07_dispatch_range_modelled.

Theorem C07_case_labels_reached : forall k h, In (k, h) case_labels -> dispatch k = h.
Proof. exact case_labels_reached. Qed.
Print Assumptions C07_case_labels_reached.

(* THE PROPERTY in model form.  For every state in which client w is attached and reading, and every finite history of
   events of OTHER sessions -- any modelled command with any patterns and filters, batches of any nesting, sessions
   arriving and leaving, clients that stop reading while their replies pile up -- w is still attached and reading
   afterwards and its PING is answered (PONG delivered) in the very event-loop turn that dispatches it. *)
Theorem C07_witness_ping_answered : forall (M : MatchOps) (fx : fixes) (evs : list bevent) (b : bserver) (w : sid) (t : N),
  serving b w -> (forall ev, In ev evs -> ev_sid ev <> w) ->
  serving (brun_spec fx evs b) w /\
  delivered (bstep_spec fx (brun_spec fx evs b) (BCmd w (BPing t))) w (OPong t).
Proof. exact @witness_ping_answered. Qed.
Print Assumptions C07_witness_ping_answered.

(* ... and on the fuelled semantics (the loops as the code writes them): the whole history followed by the ping returns
   as soon as the fuel exceeds the heaviest queued Message any jettison pass meets, and the PONG is delivered. *)
Theorem C07_witness_ping_answered_fuel : forall (M : MatchOps) (fx : fixes) (fuel : nat) (evs : list bevent) (b : bserver) (w : sid) (t : N),
  serving b w -> (forall ev, In ev evs -> ev_sid ev <> w) ->
  2 <= fuel -> rpeak fx (evs ++ [BCmd w (BPing t)]) b < fuel ->
  exists b', brun fx true fuel (evs ++ [BCmd w (BPing t)]) b = Some b' /\ delivered b' w (OPong t).
Proof. exact @witness_ping_answered_fuel. Qed.
Print Assumptions C07_witness_ping_answered_fuel.

(* the fuelled semantics (repaired loop) is a partial function of its meaning: for ANY amount of fuel, a history that
   returns at all returns [brun_spec]; running out of fuel is the only way to differ *)
Theorem C07_fuelled_run_is_meaning : forall (M : MatchOps) (fx : fixes) (fuel : nat) (evs : list bevent) (b b' : bserver),
  brun fx true fuel evs b = Some b' -> b' = brun_spec fx evs b.
Proof. exact @brun_sound. Qed.
Print Assumptions C07_fuelled_run_is_meaning.

(* ... so, for ANY amount of fuel: whenever the run of other clients' events followed by w's ping returns, the PONG is there *)
Theorem C07_witness_ping_answered_any_fuel : forall (M : MatchOps) (fx : fixes) (fuel : nat) (evs : list bevent) (b b' : bserver) (w : sid) (t : N),
  serving b w -> (forall ev, In ev evs -> ev_sid ev <> w) ->
  brun fx true fuel (evs ++ [BCmd w (BPing t)]) b = Some b' -> delivered b' w (OPong t).
Proof. exact @witness_ping_answered_any_fuel. Qed.
Print Assumptions C07_witness_ping_answered_any_fuel.

(* non-vacuity: a reachable state with a served witness next to a client that does not read and has replies queued *)
Example C07_serving_satisfiable : @serving tiny_ops w_state 0%N /\ ~ @serving tiny_ops w_state 1%N.
Proof. exact w_serving. Qed.

(* finding F4: the loop as found (RemoveData(name, i), the queue index) does not return -- a reachable state and a
   structurally valid Message for which the handler is out of fuel for every fuel.  Replayed on the real server. *)
Theorem C07_jettison_refuted :
  exists (ops : MatchOps) (evs : list bevent) (b : bserver) (s : sid) (c : bcmd),
    (forall fuel, 2 <= fuel -> @brun ops all_fixed true fuel evs empty_bserver = Some b) /\
    (forall fuel, @bstep ops all_fixed false fuel b (BCmd s c) = None).
Proof. exact jettison_refuted. Qed.
Print Assumptions C07_jettison_refuted.

(* non-vacuity: the premises of the fuel theorems hold in a state with queued replies (weight 1), where the repaired
   handler returns with fuel 2 and empties the non-reading client's queue *)
Example C07_fuel_premises_satisfiable : forall fuel, 2 <= fuel ->
  exists b', @bstep tiny_ops all_fixed true fuel w_state (BCmd 1%N w_cmd) = Some b' /\ @queue_of tiny_ops b' 1%N = [].
Proof. exact w_step_returns. Qed.
