(* C15 -- property theorems only: each is closed by [exact] of a lemma proved elsewhere. *)
From Coq Require Import List NArith Bool.
From Muscle Require Import Gen.Consts Pat.Ere Pat.Translate Pat.PatProofs.

(* SetPattern fully overwrites the matcher: the observable state after SetPattern(p, simple) and the returned
   status do not depend on the state the (re-used or recycled) object was in before. *)
Theorem C15_set_pattern_overwrites :
  forall engine st1 st2 p simple,
    obs (fst (set_pattern engine st1 p simple)) = obs (fst (set_pattern engine st2 p simple)) /\
    snd (set_pattern engine st1 p simple) = snd (set_pattern engine st2 p simple).
Proof. exact set_pattern_overwrites. Qed.
Print Assumptions C15_set_pattern_overwrites.
