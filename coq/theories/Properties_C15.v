(* C15 -- property theorems only: each is closed by [exact] of a lemma proved elsewhere.
   [engine] stands for libc regcomp(REG_EXTENDED)+regexec; the premise
     forall re, ere_compile re <> CUnsupported -> engine re = ere_engine re
   says it behaves as the model Pat/Ere.v on the regex strings inside that model (checked against the real
   libc by the correspondence run).  [st0] is the arbitrary prior state of the (re-used / recycled) object. *)
From Coq Require Import List NArith Bool.
From Muscle Require Import Gen.Consts Pat.Ere Pat.EreProofs Pat.Translate Pat.Simple Pat.RangeProofs Pat.UvProofs Pat.SimpleParse Pat.SimpleParseProofs Pat.SimpleParseComplete Pat.RangeParse Pat.PatSpec Pat.PatProofs.
Import ListNotations.
Local Open Scope N_scope.

(* SetPattern fully overwrites the matcher: state and status do not depend on the prior state. *)
Theorem C15_set_pattern_overwrites :
  forall engine st1 st2 p simple,
    obs (fst (set_pattern engine st1 p simple)) = obs (fst (set_pattern engine st2 p simple)) /\
    snd (set_pattern engine st1 p simple) = snd (set_pattern engine st2 p simple).
Proof. exact set_pattern_overwrites. Qed.
Print Assumptions C15_set_pattern_overwrites.

(* After SetPattern the REGEXVALID flag is set iff a regex was compiled for THIS pattern, and then the
   compiled regex is that pattern's. *)
Theorem C15_valid_iff_compiled :
  forall engine st0 p simple,
    let st := fst (set_pattern engine st0 p simple) in
    (s_valid st, if s_valid st then s_regexp st else None) =
    match regex_string p simple with
    | Some re => match engine re with RxOk m => (true, Some m) | RxErr => (false, None) end
    | None => (false, None)
    end.
Proof. exact valid_iff_compiled. Qed.
Print Assumptions C15_valid_iff_compiled.

(* The regex model computes the denotational meaning of POSIX EREs with anchors: regexec finds a match
   iff some infix of the subject is denoted by the expression in its context. *)
Theorem C15_ere_exec_spec :
  forall r s, ere_exec r s = true <->
    exists pre mid post, s = pre ++ mid ++ post /\ cden r (isnil pre) mid (isnil post).
Proof. exact ere_exec_spec. Qed.
Print Assumptions C15_ere_exec_spec.

(* MAIN: a pattern of the documented wildcard grammar (ordinary characters, backslash-escapes, ? , * ,
   [..] classes, ( | ) groups, comma and bar alternatives at any depth, optional leading ~) matches a
   string if and only if the documented meaning of the pattern says so -- for every pattern, every
   subject, every prior state of the matcher.
   (partial only in the character classes: their members must avoid , . + * ? \ and the bracket syntax
    characters, see C15_class_meta_refuted; the full statement has [wf] without that restriction.) *)
Theorem C15_translate_correct_partial :
  forall engine, (forall re, ere_compile re <> CUnsupported -> engine re = ere_engine re) ->
  forall neg al st0 s,
    wf_pattern al = true ->
    (matches (fst (set_pattern engine st0 (print_pattern neg al) true)) s = true <-> den_pattern neg al s).
Proof. exact translate_correct. Qed.
Print Assumptions C15_translate_correct_partial.

(* The same, read over pattern STRINGS: [sparse] is an executable reader of the documented grammar; every
   string it accepts (and its negation ~p) matches exactly what the tree it returns denotes. *)
Theorem C15_translate_correct_str_partial :
  forall engine, (forall re, ere_compile re <> CUnsupported -> engine re = ere_engine re) ->
  forall p al st0 s,
    sparse p = Some al ->
    (matches (fst (set_pattern engine st0 p true)) s = true <-> den_alt al s) /\
    (matches (fst (set_pattern engine st0 (ch_tilde :: p) true)) s = true <-> ~ den_alt al s).
Proof. exact translate_correct_str. Qed.
Print Assumptions C15_translate_correct_str_partial.

(* The reader accepts exactly the concrete syntax of the well-formed trees (so the string-level statement is as
   general as the tree-level one, and the concrete syntax is unambiguous). *)
Theorem C15_sparse_exact :
  forall p al, sparse p = Some al <-> (p = print_alt al /\ wf_pattern al = true).
Proof. exact sparse_exact. Qed.
Print Assumptions C15_sparse_exact.

(* Escaping a string with EscapeRegexTokens yields a pattern that matches that string and no other. *)
Theorem C15_escape_exact :
  forall engine, (forall re, ere_compile re <> CUnsupported -> engine re = ere_engine re) ->
  forall s st0 t, matches (fst (set_pattern engine st0 (escape s) true)) t = true <-> t = s.
Proof. exact escape_exact. Qed.
Print Assumptions C15_escape_exact.

(* A pattern reported unique matches exactly RemoveEscapeChars(pattern) (the law the hash-lookup path of
   the tree traversal needs). *)
Theorem C15_unique_exact :
  forall engine, (forall re, ere_compile re <> CUnsupported -> engine re = ere_engine re) ->
  forall p st0 t,
    is_unique (fst (set_pattern engine st0 p true)) = true ->
    (matches (fst (set_pattern engine st0 p true)) t = true <-> t = unescape p).
Proof. exact unique_exact. Qed.
Print Assumptions C15_unique_exact.

(* The "can match more than one string" test answers yes whenever two different strings match. *)
Theorem C15_multi_complete :
  forall engine, (forall re, ere_compile re <> CUnsupported -> engine re = ere_engine re) ->
  forall p st0 t1 t2,
    matches (fst (set_pattern engine st0 p true)) t1 = true ->
    matches (fst (set_pattern engine st0 p true)) t2 = true ->
    t1 <> t2 ->
    is_unique (fst (set_pattern engine st0 p true)) = false.
Proof. exact multi_complete. Qed.
Print Assumptions C15_multi_complete.

(* The escape of a string is reported unique (so the traversal's hash-lookup path is taken for it). *)
Theorem C15_escape_unique :
  forall engine s st0, is_unique (fst (set_pattern engine st0 (escape s) true)) = true.
Proof. exact escape_unique. Qed.
Print Assumptions C15_escape_unique.

(* RANGE LISTS.  Full statement: for every documented list "<clause,..>" (optionally negated) and EVERY
   subject s:  Match s = true <-> s is a decimal numeral of an integer inside one of the ranges.
   Proved part: every such list, every subject that is a decimal numeral (leading zeros allowed) of a value
   below 2^32.  The full statement fails on subjects with trailing junk (F25) and values >= 2^32 (F26):
   C15_range_junk_refuted, C15_range_wrap_refuted. *)
Theorem C15_range_doc_partial :
  forall engine neg cs st0 k v,
    cs <> [] -> forallb clause_ok cs = true -> v <= u32_max ->
    matches (fst (set_pattern engine st0 (print_range_pattern neg cs) true)) (repeat 48 k ++ print_num v) =
    xorb neg (existsb (fun c => clause_has c v) cs).
Proof. exact range_doc. Qed.
Print Assumptions C15_range_doc_partial.

(* The same over pattern STRINGS: [read_ranges] is an executable reader of the documented range-list form. *)
Theorem C15_range_doc_str_partial :
  forall engine p neg cs st0 k v,
    read_ranges p = Some (neg, cs) -> v <= u32_max ->
    matches (fst (set_pattern engine st0 p true)) (repeat 48 k ++ print_num v) =
    xorb neg (existsb (fun c => clause_has c v) cs).
Proof. exact range_doc_str. Qed.
Print Assumptions C15_range_doc_str_partial.

(* the witnesses replayed on the real code as findings F24, F25, F26 *)
Theorem C15_class_meta_refuted :
  exists neg items c,
    class_has neg items c = true /\
    matches (fst (set_pattern ere_engine sm_init (print_pattern false (SLast (SCons (SClass neg items) SNil))) true)) [c] = false.
Proof. exact class_meta_refuted. Qed.
Print Assumptions C15_class_meta_refuted.

Theorem C15_range_junk_refuted :
  exists cs s, ~ den_ranges cs s /\
    matches (fst (set_pattern ere_engine sm_init (print_range_pattern false cs) true)) s = true.
Proof. exact range_junk_refuted. Qed.
Print Assumptions C15_range_junk_refuted.

Theorem C15_range_wrap_refuted :
  exists cs s, ~ den_ranges cs s /\
    matches (fst (set_pattern ere_engine sm_init (print_range_pattern false cs) true)) s = true.
Proof. exact range_wrap_refuted. Qed.
Print Assumptions C15_range_wrap_refuted.

(* A pattern reported "list of unique values" matches exactly its comma-separated values. *)
Theorem C15_uvlist_exact :
  forall engine, (forall re, ere_compile re <> CUnsupported -> engine re = ere_engine re) ->
  forall p st0 t,
    is_uvlist (fst (set_pattern engine st0 p true)) = true ->
    (matches (fst (set_pattern engine st0 p true)) t = true <-> In t (uv_segs p false [])).
Proof. exact uvlist_exact. Qed.
Print Assumptions C15_uvlist_exact.

(* The glue classes add nothing but piecewise matching: SegmentedStringMatcher (without prefix matching) and
   PathMatcher's clause loop accept iff there are as many '/'-pieces as matchers and each piece is matched
   by its matcher (a "*" clause has no matcher and accepts anything). *)
Theorem C15_seg_match_piecewise :
  forall segs toks,
    seg_match_aux segs toks false = true <-> Forall2 (fun m t => clause_ok1 m t = true) segs toks.
Proof. exact seg_match_aux_exact. Qed.
Print Assumptions C15_seg_match_piecewise.

Theorem C15_path_clauses_piecewise :
  forall ms toks,
    clauses_match ms toks = true <->
    (length ms <= length toks)%nat /\ Forall2 (fun m t => clause_ok1 m t = true) ms (firstn (length ms) toks).
Proof. exact clauses_match_spec. Qed.
Print Assumptions C15_path_clauses_piecewise.

(* GetPathDepth (as repaired by 7a6d758) counts exactly the clauses MatchesPath tokenises and PutPathString files:
   the path, less one leading '/', cut at EVERY '/' (empty clauses included; the empty path has none).  Hence
   MatchesPath against one stored path is exactly clause-by-clause matching, for every subject path. *)
Theorem C15_path_depth_clauses :
  forall p, path_depth p = length (hard_split ch_slash (skip_slash p)).
Proof. exact path_depth_clauses. Qed.
Print Assumptions C15_path_depth_clauses.

Theorem C15_path_matches_exact :
  forall ms subject,
    path_matches ms subject = true <->
    Forall2 (fun m t => clause_ok1 m t = true) ms (hard_split ch_slash (skip_slash subject)).
Proof. exact path_matches_exact. Qed.
Print Assumptions C15_path_matches_exact.

(* The laws of the client interface Pat/PatSpec.v hold for the model (used by C05). *)
Theorem C15_model_laws :
  forall engine, (forall re, ere_compile re <> CUnsupported -> engine re = ere_engine re) ->
    unique_sound_law (model_ops engine) /\ multi_complete_law (model_ops engine) /\
    escape_exact_law (model_ops engine) /\ escape_unique_law (model_ops engine) /\
    uvlist_sound_law (model_ops engine) uv_values /\ uvlist_not_unique_law (model_ops engine).
Proof. exact model_laws. Qed.
Print Assumptions C15_model_laws.

(* ---- non-vacuity: the premises are satisfiable by non-trivial instances *)

(* the engine premise is satisfied by the Ere model itself *)
Example C15_engine_premise_sat : forall re, ere_compile re <> CUnsupported -> ere_engine re = ere_engine re.
Proof. reflexivity. Qed.

(* ex_alt (Pat/PatProofs.v) is the well-formed pattern  a?*[^b-dx](\*|e,f.)  using every construct *)
Example C15_wf_example : wf_pattern ex_alt = true /\
  print_pattern true ex_alt = [126; 97; 63; 42; 91; 94; 98; 45; 100; 120; 93; 40; 92; 42; 124; 101; 44; 102; 46; 41].
Proof. vm_compute. split; reflexivity. Qed.
Example C15_match_example :
  matches (fst (set_pattern ere_engine sm_init (print_pattern false ex_alt) true)) [97; 120; 121; 122; 97; 102; 46] = true /\
  matches (fst (set_pattern ere_engine sm_init (print_pattern false ex_alt) true)) [97; 120; 121; 122; 99; 102; 46] = false.
Proof. vm_compute. split; reflexivity. Qed.

(* a unique pattern with escapes and a trailing backslash:  a\*.\  *)
Example C15_unique_example :
  is_unique (fst (set_pattern ere_engine sm_init [97; 92; 42; 46; 92] true)) = true /\
  unescape [97; 92; 42; 46; 92] = [97; 42; 46; 92] /\
  matches (fst (set_pattern ere_engine sm_init [97; 92; 42; 46; 92] true)) [97; 42; 46; 92] = true.
Proof. vm_compute. repeat split; reflexivity. Qed.

(* two different strings match a*, and it is reported non-unique *)
Example C15_multi_example :
  matches (fst (set_pattern ere_engine sm_init [97; 42] true)) [97] = true /\
  matches (fst (set_pattern ere_engine sm_init [97; 42] true)) [97; 98] = true /\
  is_unique (fst (set_pattern ere_engine sm_init [97; 42] true)) = false.
Proof. vm_compute. repeat split; reflexivity. Qed.

(* a range list with every clause form, and a numeral with leading zeros inside it:  ~<7,10-20,-3,4000000000-,->  vs 0015 *)
Example C15_range_example :
  forallb clause_ok [RSingle 7; RBetween 20 10; RUpTo 3; RFrom 4000000000] = true /\
  print_range_pattern false [RSingle 7; RBetween 20 10; RUpTo 3; RFrom 4000000000] =
    [60; 55; 44; 50; 48; 45; 49; 48; 44; 45; 51; 44; 52; 48; 48; 48; 48; 48; 48; 48; 48; 48; 45; 62] /\
  matches (fst (set_pattern ere_engine sm_init (print_range_pattern false [RSingle 7; RBetween 20 10; RUpTo 3; RFrom 4000000000]) true))
          (repeat 48 2 ++ print_num 15) = true /\
  matches (fst (set_pattern ere_engine sm_init (print_range_pattern false [RSingle 7; RBetween 20 10; RUpTo 3; RFrom 4000000000]) true))
          (print_num 8) = false.
Proof. vm_compute. repeat split; reflexivity. Qed.

(* a list-of-unique-values pattern with an escaped comma and an empty value:  a\,b,,c  *)
Example C15_uvlist_example :
  is_uvlist (fst (set_pattern ere_engine sm_init [97; 92; 44; 98; 44; 44; 99] true)) = true /\
  uv_segs [97; 92; 44; 98; 44; 44; 99] false [] = [[97; 44; 98]; []; [99]] /\
  uv_values [97; 92; 44; 98; 44; 44; 99] = [[97; 44; 98]; [99]] /\
  matches (fst (set_pattern ere_engine sm_init [97; 92; 44; 98; 44; 44; 99] true)) [97; 44; 98] = true.
Proof. vm_compute. repeat split; reflexivity. Qed.

(* the reader accepts the example pattern string and returns the example tree *)
Example C15_sparse_example : sparse (print_pattern false ex_alt) = Some ex_alt.
Proof. vm_compute. reflexivity. Qed.

(* the range reader accepts the example string  ~<7,20-10,-3,4000000000->  *)
Example C15_read_ranges_example :
  read_ranges (print_range_pattern true [RSingle 7; RBetween 20 10; RUpTo 3; RFrom 4000000000]) =
  Some (true, [RSingle 7; RBetween 20 10; RUpTo 3; RFrom 4000000000]).
Proof. vm_compute. reflexivity. Qed.

(* a subject path with an empty clause: "xy/" has two clauses and is matched by the two-clause pattern "*/*" *)
Example C15_path_example :
  path_depth [120; 121; 47] = 2%nat /\ path_depth [47] = 0%nat /\ path_depth [97; 47; 47; 98] = 3%nat /\
  match path_put ere_engine [42; 47; 42] with Some ms => path_matches ms [120; 121; 47] | None => false end = true.
Proof. vm_compute. repeat split; reflexivity. Qed.
